"""Per-property registry for bin/vcheck: what to build, which engine runs to start, evidence level."""

import os
REPO = os.environ.get("VERIF_REPO", "/repo")
SANMC = ["mc/world.c", "mc/wire.c", "mc/report.c", "mc/forkrun.c", "mc/sigma.c", "mc/darwin.c"]
MC = ["mc/world.c", "mc/wire.c", "mc/report.c", "mc/e1.c", "mc/e3.c", "mc/sigma.c", "mc/oracles.c"]
MTUS_Q = [576, 1500]
MTUS_T = [576, 577, 1500, 9216]


# every residue of the MTU modulo the QueryResp descriptor size (20) / the Emit descriptor size (14):
# capacity arithmetic such as (MTU - 34) / 20 must be exercised in every alignment of the frame end
MTUS_MOD20 = list(range(576, 596))
MTUS_MOD14 = list(range(576, 590))


def cfgs(mtus, wifis=(0, 1)):
    return [["--mtu", str(m), "--wifi", str(w)] for m in mtus for w in wifis]


def c05_runs(tier):
    mt = MTUS_T if tier == "thorough" else MTUS_Q
    runs = [("main", ["--mode", "closure"] + c) for c in cfgs(mt)]
    runs += [("main", ["--mode", "sweep", "--mtu", "1500", "--wifi", "0"])]
    runs += [("main", ["--mode", "addr", "--mtu", "1500", "--wifi", "0"])]                     # mapper addresses that differ in one bit
    runs += [("main", ["--mode", "closure", "--b", "1", "--mtu", "1500", "--wifi", "0"])]      # three interfaces: frames on the other two interleave
    if tier == "thorough":
        runs += [("main", ["--mode", "sweep", "--mtu", "576", "--wifi", "1"])]
    return runs


def proto_runs(mode):
    def f(tier):
        mt = MTUS_T if tier == "thorough" else MTUS_Q
        extra = []
        if mode == "c09" and tier == "quick":
            extra = ["--a", "1"]
        runs = [("main", ["--mode", mode] + extra + c) for c in cfgs(mt)]
        if mode == "c09":               # a responder with two interfaces: frames on the other interface interleave with the history and the continuations
            runs += [("main", ["--mode", mode, "--a", "1", "--b", "1", "--mtu", "1500", "--wifi", "0"])]
        if mode == "c02":               # every (service, opcode, sequence number, sender, destination) frame in 4 states
            runs += [("main", ["--mode", mode, "--a", "4", "--mtu", "1500", "--wifi", "0"])]
        if mode in ("c02", "c03"):      # every single failing getter, and all of them
            runs += [("main", ["--mode", mode, "--a", "5", "--mtu", "1500", "--wifi", "1"])]
        if mode == "c03":               # every 16-bit generation / sequence number in 10 states per service
            runs += [("main", ["--mode", mode, "--a", "3", "--mtu", "1500", "--wifi", "0"])]
        if mode in ("c02", "c03"):      # a platform whose machine name exceeds the 32 bytes a Hello may carry
            runs += [("main", ["--mode", mode, "--a", "2", "--mtu", "576", "--wifi", "1"])]
        if mode in ("c02", "c03"):      # the same closure on the responder's second interface
            runs += [("main", ["--mode", mode, "--b", "1", "--mtu", "1500", "--wifi", str(w)]) for w in (0, 1)]
            runs += [("main", ["--mode", mode, "--b", "1", "--mtu", "576", "--wifi", "0"])]      # ... whose first interface has the larger MTU
        return runs
    return f


def obs_runs(mode):
    def f(tier):
        mt = sorted(set(MTUS_MOD20 + [1500] + ([1492, 9216] + list(range(1480, 1500)) if tier == "thorough" else [])))
        if mode == "c07":
            mt = sorted(set(mt + [1534, 9216]))          # jumbo frames: more than 74 observations fit one QueryResp
        runs = [("main", ["--mode", mode, "--mtu", str(m), "--wifi", "0"]) for m in mt]
        if mode == "c07":            # three interfaces: frames on the other two interleave (MTU 576: the smallest capacity)
            runs += [("main", ["--mode", "c07", "--mtu", "576", "--wifi", "0", "--b", "1", "--a", "40"])]
        if mode == "c07":            # host getters (icon, name, hardware ID) failing during the large-property requests of the alphabet
            runs += [("main", ["--mode", "c07", "--mtu", "576", "--wifi", "0", "--b", "2", "--a", "40"])]
        if mode == "c07":            # observations whose addresses differ in one bit
            runs += [("main", ["--mode", "c07a", "--mtu", "1500", "--wifi", "0"])]
        if mode == "c07":            # every sequence number of a Query
            runs += [("main", ["--mode", "c07v", "--mtu", str(m), "--wifi", "0"]) for m in ((576, 1500) if tier == "thorough" else (576,))]
        return runs
    return f


def c06_runs(tier):
    mt = sorted(set(MTUS_MOD14 + [1500, 9216] + ([577, 3617, 3618] if tier == "thorough" else [])))      # 9216: more than 255 descriptors fit one Emit
    return [("main", ["--mode", "c06", "--mtu", str(m), "--wifi", "0"]) for m in mt]


def c10_runs(tier):
    mt = [576, 1500] if tier == "thorough" else [1500]
    return [("main", ["--mode", "c10", "--mtu", str(m), "--wifi", "0", "--a", str(a)]) for m in mt for a in (0, 1, 2, 3, 4)] + [("main", ["--mode", "c10flood"])]


def c13_runs(tier):
    if tier == "thorough":
        return [("main", ["--part", str(i), "--nparts", "16"]) for i in range(16)]
    return [("main", [])]


def fsm_runs(mode):
    def f(tier):
        runs = [("main", ["--mode", mode + "-steps"])]
        extra = []
        runs.append(("main", ["--mode", mode + "-closure"] + extra))
        if mode == "c14":
            runs.append(("main", ["--mode", "c14-closure", "--a", "1"]))      # two session-table keys, reduced alphabet
        # the same core compiled for an ABI whose plain char is unsigned (ARM, PowerPC, Xtensa: the embedded targets)
        runs.append(("uchar", ["--mode", mode + "u-steps"]))
        runs.append(("uchar", ["--mode", mode + "u-closure"]))
        return runs
    return f


FSM = {"main": {"sources": MC + ["mc/darwin.c", "checks/fsm.c"], "modes": ["c14-steps", "c14-closure", "c15-steps", "c15-closure"]},
       "uchar": {"sources": MC + ["mc/darwin.c", "checks/fsm.c"], "core_defs": ["-funsigned-char"], "modes": ["c14u-steps", "c14u-closure", "c15u-steps", "c15u-closure"]}}
def c16_runs(tier):
    runs = []
    for a in (0, 1):
        for part in range(7):      # the second key set runs with a clock that has just started (origin 0: "now - 60" must not wrap)
            runs.append(("main", ["--a", str(a), "--b", "0", "--part", str(part), "--nparts", "7"] + (["--origin", "0"] if a == 1 else [])))
    runs.append(("main", ["--a", "0", "--b", "1", "--depth", "8" if tier == "thorough" else "6"]))
    runs.append(("main", ["--a", "1", "--b", "1", "--depth", "8" if tier == "thorough" else "6", "--origin", "0"]))
    return runs


def c12_runs(tier):
    th = tier == "thorough"
    runs = []
    for k, b in enumerate((0, 4, 2, 3)):      # clock origins: 1 000 000 ms; 0 ms; 3 000 500 ms (other phase); 2^32 - 2296 ms
        # thorough: the flow runs at depth 12 need up to 16 GB each; two of them per stage keep the peak well below the 62 GB of the sandbox
        runs.append(("main", ["--mode", "narrow", "--depth", "14" if th else "11", "--b", str(b)], (k // 2) if th else 0))
        runs.append(("main", ["--mode", "flow", "--depth", "12" if th else "10", "--b", str(b)], (k // 2) if th else 0))
    runs.append(("main", ["--mode", "map", "--depth", "12" if th else "9"]))
    runs.append(("main", ["--mode", "wide", "--depth", "6" if th else "5"]))
    for a in range(1, 8):
        runs.append(("main", ["--mode", "start", "--a", str(a), "--depth", "6" if th else "5"]))
    return runs


def c12_post(configs):
    """Translation invariance: the same run from two clock origins must explore the same graph."""
    out = []
    by = {}
    for c in configs:
        args = c["args"].split()
        if "--b" in args and args[args.index("--b") + 1] in ("0", "1", "3", "4"):
            i = args.index("--b")
            key = " ".join(args[:i] + args[i + 2:])
            by.setdefault(key, []).append(c["extra"].get("origin_signature"))
    for k, sigs in by.items():
        if len(sigs) >= 2 and len(set(sigs)) > 1 and not any(c.get("cap") in ("deadline", "stopped-after-violation") for c in configs):
            out.append(("time-translation-variance", "run [%s] differs between clock origins: %s vs %s" % (k, sigs[0], sigs[1])))
    return out


def c08_runs(tier):
    runs = [("main", ["--mode", "grid", "--mtu", str(m)]) for m in (MTUS_T if tier == "thorough" else [576, 1500, 9216])]
    if tier == "thorough":
        for m in (576, 1500, 9216):
            step = 32769 // 16 + 1
            for i in range(16):
                runs.append(("main", ["--mode", "full", "--mtu", str(m), "--a", str(i * step), "--b", str(min(32769, (i + 1) * step))]))
    else:
        # quick: the full (size, offset) relation for a band of sizes around one and two payloads
        for m in (576, 1500):
            runs.append(("main", ["--mode", "full", "--mtu", str(m), "--a", str(m - 34 - 8), "--b", str(m - 34 + 8)]))
            runs.append(("main", ["--mode", "full", "--mtu", str(m), "--a", str(2 * (m - 34) - 4), "--b", str(2 * (m - 34) + 4)]))
    return runs


def c04_runs(tier):
    runs = [("main", ["--mode", "grid", "--mtu", "1500"]), ("uchar", ["--mode", "gridu", "--mtu", "1500"])]
    if tier == "thorough":
        runs.append(("main", ["--mode", "grid", "--mtu", "576"]))
        for i in range(16):
            runs.append(("main", ["--mode", "full", "--a", str(i * 16), "--b", str((i + 1) * 16)]))
            runs.append(("linux", ["--mode", "linux", "--a", str(i * 16), "--b", str((i + 1) * 16)]))
    else:
        # quick: the low and the high end of each 32-bit domain (values 0x00xxxxxx and 0xFFxxxxxx)
        runs += [("main", ["--mode", "full", "--a", "0", "--b", "1"]), ("main", ["--mode", "full", "--a", "255", "--b", "256"])]
        runs += [("linux", ["--mode", "linux", "--a", "0", "--b", "1"]), ("linux", ["--mode", "linux", "--a", "255", "--b", "256"])]
    return runs


def c01_runs(tier):
    th = tier == "thorough"
    runs = []
    mtus = MTUS_T if th else MTUS_Q
    np_ = 4 if th else 2
    for m in mtus:
        for mode in ("linux", "darwin"):
            for (wifi, fill) in ((0, 0x00), (0, 0xFF), (1, 0xA5)) if th else ((0, 0xFF), (1, 0x00)):
                for part in range(np_):
                    runs.append(("san", ["--mode", mode, "--mtu", str(m), "--wifi", str(wifi), "--fill", str(fill), "--part", str(part), "--nparts", str(np_)]))
        runs.append(("san", ["--mode", "esp32", "--mtu", str(m)]))
    runs.append(("cov", ["--mode", "cov", "--mtu", "576"]))
    for part in range(4 if th else 2):
        runs.append(("san", ["--mode", "linux2", "--mtu", "9216" if th else "1500", "--fill", "255", "--b", "8" if th else "3", "--part", str(part), "--nparts", str(4 if th else 2)]))
    if th:
        for part in range(4):
            runs.append(("san", ["--mode", "linux2", "--mtu", "576", "--fill", "0", "--b", "8", "--part", str(part), "--nparts", "4"]))
    runs.append(("san", ["--mode", "hello", "--mtu", "576", "--fill", "255"]))
    if th:
        runs.append(("san", ["--mode", "hello", "--mtu", "1500", "--fill", "0"]))
    runs.append(("san", ["--mode", "flood", "--mtu", "576", "--fill", "0"]))
    runs.append(("san", ["--mode", "flood", "--mtu", "576", "--fill", "255", "--wifi", "1"]))
    runs.append(("daemon", ["--mode", "daemon", "--mtu", "1500"]))
    runs.append(("daemon", ["--mode", "daemon", "--mtu", "576", "--fill", "255"]))
    if th:
        runs.append(("daemon", ["--mode", "daemon", "--mtu", "9216"]))
    return runs


def c18_runs(tier):
    th = tier == "thorough"
    runs = [("san", ["--mode", "faults", "--mtu", "1500", "--part", str(i), "--nparts", "12"], 0) for i in range(12)]
    runs += [("san", ["--mode", "faults", "--mtu", "576", "--wifi", "1", "--part", str(i), "--nparts", "4"], 0) for i in range(4)]
    np_ = 8 if th else 4
    runs += [("plain", ["--mode", "equiv", "--mtu", "1500", "--part", str(i), "--nparts", str(np_)], 1) for i in range(np_)]
    # an MTU other than the 1500 fallback: state derived from a failed MTU getter must not survive the Reset
    runs += [("plain", ["--mode", "equiv", "--mtu", "576", "--wifi", "1", "--part", str(i), "--nparts", str(np_)], 1) for i in range(np_)]
    return runs


def c17_runs(tier):
    th = tier == "thorough"
    runs = [("plain", ["--mode", "seq", "--mtu", "1500", "--wifi", "0"]), ("plain", ["--mode", "seq", "--mtu", "576", "--wifi", "1"]),
            ("plain", ["--mode", "seq", "--mtu", "576", "--wifi", "0", "--a", "1"]),      # B's MTU getter fails while A reports a small MTU
            ("plain", ["--mode", "seq", "--mtu", "576", "--wifi", "1", "--a", "2"]),      # all of B's per-interface getters fail
            ("plain", ["--mode", "seq", "--mtu", "1500", "--wifi", "0", "--a", "3"]),     # every transmit refused
            ("plain", ["--mode", "seq3", "--mtu", "1500", "--wifi", "0"])]
    np1, np2 = 4, 10
    for i in range(np1):
        runs.append(("tsanabi", ["--mode", "conc", "--a", "1", "--depth", "3" if th else "2", "--part", str(i), "--nparts", str(np1)]))
    for i in range(np2):
        runs.append(("tsanabi", ["--mode", "conc", "--a", "2", "--depth", "2" if th else "1", "--part", str(i), "--nparts", str(np2)]))
    return runs


EMIT = {"main": {"sources": MC + ["checks/emit.c"], "modes": ["c06", "c10", "c10flood"]}}
OBS = {"main": {"sources": MC + ["checks/obs.c"], "modes": ["c07", "c07v", "c07a", "c02f", "c19", "c19pump", "c19multi", "c02o"]},
       "proto": {"sources": MC + ["checks/proto.c"], "modes": ["c19p"]}}


def c19_runs(tier):
    mt = MTUS_T if tier == "thorough" else MTUS_Q
    runs = [("main", ["--mode", "c19", "--mtu", str(m), "--wifi", "0"]) for m in mt]
    runs += [("proto", ["--mode", "c19p", "--mtu", str(m), "--wifi", str(w)]) for m in mt for w in ((0, 1) if tier == "thorough" else (0,))]
    runs += [("main", ["--mode", "c19pump", "--mtu", str(m), "--wifi", "0"]) for m in (mt if tier == "thorough" else [576, 1500])]
    runs += [("main", ["--mode", "c19multi", "--mtu", str(m), "--wifi", "0"]) for m in (mt if tier == "thorough" else [1500])]
    return runs
PROTO = {"main": {"sources": MC + ["checks/proto.c"], "modes": ["c02", "c03", "c09"]}}

PROPS = {
    "C20": {
        "custom": True, "engine": "matrix", "level": "other",
        "technique": "complete enumeration of the build-configuration matrix (2 compilers x 3 optimisation levels x hosted/freestanding) with a symbol-table oracle (nm -u of the relocatably linked core), the repository's lint rule and an include audit",
        "assumptions": ["subject is the program text, not its executions: claimed because the enumeration is complete and every other check's closed-world argument rests on it",
                        "compiler runtime helpers (__stack_chk_fail, libgcc integer helpers, _GLOBAL_OFFSET_TABLE_) are tolerated"],
    },
    "C17": {
        "engine": "E3+E6",
        "builds": {"plain": {"sources": MC + ["checks/c17.c"], "modes": ["seq", "seq3"]},
                   "tsanabi": {"flavour": "tsanabi", "sources": ["mc/world.c", "mc/wire.c", "mc/report.c", "mc/sigma.c", "mc/tsan_hooks.c", "checks/c17.c"], "modes": ["conc"]}},
        "runs": c17_runs, "level": "model_checking", "timeout": {"quick": 1200, "thorough": 3400},
        "technique": "sequential clause: product exploration of (two-interface world, solo world A, solo world B) triples to closure; concurrent clause: preemption-bounded enumeration of all schedules of two interface threads at compiler-inserted memory-access granularity (core built with -fsanitize=thread and linked against harness hooks instead of the TSan runtime), with per-interface solo-trace comparison, allocation ledger and a happens-before-free race detector",
        "assumptions": ["sequentially consistent interleavings of the accesses as compiled at -O1; weak-memory reorderings not modelled (the race clause does not depend on them)",
                        "preemption bound 2 (3 in the thorough tier) for pairs of single-frame histories, 1 (2) for pairs of histories of length <= 2"],
    },
    "C18": {
        "engine": "E5+E3",
        "builds": {"san": {"flavour": "san", "sources": SANMC + ["mc/oracles.c", "checks/c18.c"], "modes": ["faults"]},
                   "plain": {"sources": MC + ["checks/c18.c"], "modes": ["equiv"]}},
        "runs": c18_runs, "level": "fault_enumeration", "timeout": {"quick": 1200, "thorough": 3400},
        "technique": "deviation-bounded fault enumeration: every fallible port call of every scenario (request histories of length <= 2 from two start states, four constructors) is failed in turn (thorough: every pair), plus sticky modes and every subset of failing getters, under ASan/UBSan in forked children; then Reset and a product exploration against a fresh responder to pair closure",
        "rule": "one evaluation = one scenario executed under one fault plan; non-trivial = at least one injected fault took effect; distinct_nontrivial counts distinct (transmitted trace, faults taken) outcomes",
        "assumptions": ["under faults only structural well-formedness and the per-request frame bound are demanded of transmitted frames (a Hello built while the address getter fails carries a zero address)",
                        "scenario corpus is generated (all histories of length <= 2 over 10 request types), not hand-picked"],
    },
    "C01": {
        "engine": "E4",
        "builds": {"san": {"flavour": "san", "sources": SANMC + ["checks/c01.c"], "repo_extra": ["os/esp32/daemon/lltd_esp32.c"],
                           "defs": ["-I", REPO + "/os/esp32/daemon"], "modes": ["linux", "darwin", "esp32", "flood", "linux2", "hello"]},
                   "cov": {"flavour": "tsanabi", "sources": ["mc/world.c", "mc/wire.c", "mc/report.c", "mc/sigma.c", "mc/darwin.c", "mc/tsan_hooks.c", "checks/cov.c"],
                           "repo_extra": ["os/esp32/daemon/lltd_esp32.c"], "defs": ["-I", REPO + "/os/esp32/daemon"], "modes": ["cov"]},
                   "daemon": {"flavour": "san", "sources": ["mc/report.c", "mc/forkrun.c", "mc/wire.c", "checks/c01_daemon.c"],
                              "repo_extra": ["os/linux/lltd_port.c", "os/linux/daemon/linux-ops.c"],
                              "repo_extra_flags": ["-I", REPO + "/os/linux", "-DLLTD_BACKEND_EMBEDDED", "-DLLTD_USE_CONSOLE", "-D", "LINUX"],
                              "defs": ["-DLLTD_BACKEND_EMBEDDED", "-DLLTD_USE_CONSOLE", "-D", "LINUX", "-DVF_DAEMON_C=\"" + REPO + "/os/linux/daemon/linux-embedded-main.c\""],
                              "modes": ["daemon"]}},
        "runs": c01_runs, "level": "exploration", "timeout": {"quick": 1200, "thorough": 3400},
        "technique": "bounded exhaustive enumeration of input shapes: every history prefix . f1 . f2 over per-opcode field-class products (all opcodes, all ToS classes, wire counters 0/1/fits/fits+1/0x7FFF/0x8000/0xFFFF, 17 received lengths) through the Linux, Darwin and ESP32 receive paths and the real embedded daemon loop, under AddressSanitizer + UBSan without recovery, in forked children",
        "rule": "one evaluation = one execution (fresh process image, prefix, one or two frames) under ASan/UBSan; distinct_nontrivial counts distinct transmitted traces on a subsample",
        "assumptions": ["field classes, not all 2^(8*MTU) frames: fields of different opcodes do not interact in the code", "only the Linux port layer and the embedded daemon are real; the Darwin glue is the transcription mc/darwin.c"],
    },
    "C04": {
        "engine": "sweep",
        "builds": {"main": {"sources": MC + ["checks/c04.c"], "modes": ["grid", "full"]},
                   "uchar": {"sources": MC + ["checks/c04.c"], "core_defs": ["-funsigned-char"], "modes": ["gridu"]},      # ABI with unsigned plain char
                   "linux": {"sources": ["mc/report.c", "checks/c04_linux.c"], "core": [], "repo_extra": ["os/linux/lltd_port.c"],
                             "repo_extra_flags": ["-I", "/repo/os/linux", "-DLINUX"], "defs": ["-DVF_LINUX_MAIN_H=\"/repo/os/linux/daemon/linux-main.h\""], "modes": ["linux"]}},
        "runs": c04_runs, "level": "exploration",
        "technique": "exhaustive input enumeration: every attribute domain swept through the real Hello path and decoded independently (2^16 domains fully, per-byte for MAC/BSSID/IPv6, all 2^32 values of ifType/IPv4/speed through the TLV writers in the thorough tier); the Linux port layer linked alone and swept over all 2^32 values of LinkSpeed / MediumType / flags",
        "rule": "one evaluation = one Hello built by the real code for an attribute tuple (or one TLV-writer / port-getter call); distinct_nontrivial counts distinct encoded property lists on a subsample",
        "assumptions": ["for a failing getter only 'property absent or zero default' is demanded", "IPv6 and 48-bit addresses are covered per byte position, not as full 2^128 / 2^48 domains",
                        "perf-counter frequency and QoS characteristics: checked for presence, size, plausibility (big-endian) and constancy"],
    },
    "C08": {
        "engine": "sweep",
        "builds": {"main": {"sources": MC + ["checks/c08.c"], "modes": ["grid", "full"]}}, "runs": c08_runs, "level": "exploration",
        "timeout": {"quick": 900, "thorough": 3400},
        "technique": "exhaustive (size, offset) enumeration through the real QueryLargeTlv request path against the chunk relation and end-to-end reassembly (thorough: all 2^31 (size, offset) pairs per MTU for the icon path)",
        "rule": "one evaluation = one QueryLargeTlv frame handled by the real parseFrame with a position-coded platform blob; distinct_nontrivial counts distinct (payload length, more flag, type) outcomes on a 1/1024 subsample of the calls",
        "assumptions": ["hardware id: even sizes only (UCS-2)", "known large properties: icon 0x0E, friendly name 0x11, hardware id 0x13; every other type must yield an empty payload"],
    },
    "C12": {
        "builds": {"main": {"sources": MC + ["mc/darwin.c", "checks/c12.c"], "modes": ["narrow", "wide", "start", "map", "flow"]}},
        "runs": c12_runs, "post": c12_post, "level": "model_checking", "parallel": 8,
        "timeout": {"quick": 900, "thorough": 3000},
        "technique": "timed explicit-state BFS over the real automata_tick / session table / RepeatBand code with a virtual clock: every interleaving of tick, clock advance, table, band and FSM operations up to a depth (API-level driver, narrow-deep / wide-shallow / from non-initial start states) and of the documented Darwin frame flow; monitors evaluated inside the send_hello callback",
        "assumptions": ["depth-bounded (the bound completed is reported per run); time-abstracted key (timestamps relative to now, saturated), checked from two clock origins",
                        "clock origin 0 excluded: last_hello_tx_ms == 0 is the code's documented 'never sent' sentinel",
                        "mc/darwin.c transcribes darwin-main.c:262-404 (trusted base); r saturated at 16 in the key",
                        "visited set stores 128-bit hashes (hash compaction)"],
    },
    "C11": {
        "engine": "sweep",
        "builds": {"main": {"sources": MC + ["checks/c11.c"]}}, "runs": lambda tier: [("main", [])], "level": "exploration",
        "technique": "exhaustive layout enumeration of derive_session_event (built without LLTD_TESTING): every station count 0..240 x every position of the own address + absent + wrong-stride decoys x 6 session-table shapes x 2 buffer sizes; all 256 opcodes x 3 destinations",
        "rule": "one evaluation = one call of the real classifier on a harness-built frame; distinct_nontrivial counts distinct (result, listed?, table shape) outcomes",
        "assumptions": ["empty station list: classification unconstrained (acknowledging or not)", "with a NULL own address only memory safety is demanded"],
    },
    "C16": {
        "builds": {"main": {"sources": MC + ["checks/table.c"]}}, "runs": c16_runs, "level": "model_checking",
        "technique": "explicit-state BFS to fixpoint over the real 16-slot session table (time-abstracted key) from the empty table and 40 near-full start layouts, product with a dictionary model checked after every operation",
        "assumptions": ["3 probe keys chosen to collide (same MAC/different generation, MACs differing in the last or first byte) + up to 16 fillers",
                        "fixpoint runs use clock advances {30,31,61} s; {1,59,60} s are added in a depth-bounded run (depth 6 quick / 8 thorough)",
                        "created_ts is excluded from the key (never read by the core)"],
    },
    "C14": {
        "builds": FSM, "runs": fsm_runs("c14"), "level": "model_checking",
        "technique": "exhaustive single-step sweep (3 states x inputs -128..255 x 6 elapsed classes) + timed explicit-state closure with the Darwin glue and the periodic tick, product with the reference state machine, two clock origins",
        "assumptions": ["time-abstracted key: timestamps relative to now, saturated beyond the largest constant they are compared with; checked by exploring from two clock origins",
                        "charge counter bounded at 3 in the closure alphabet",
                        "mc/darwin.c transcribes darwin-main.c:262-404 (trusted base)"],
    },
    "C15": {
        "builds": FSM, "runs": fsm_runs("c15"), "level": "model_checking",
        "technique": "exhaustive single-step sweep (4 states x 8 events x 5 elapsed classes) + timed closure over events and clock advances, product with the reference life-cycle table",
        "assumptions": ["events outside 0..7 are not applied (left unspecified by the property)",
                        "after an expired timeout either Nascent or delta(Nascent, event) is accepted"],
    },
    "C13": {
        "engine": "sweep",
        "builds": {"main": {"sources": MC + ["mc/darwin.c", "checks/c13.c"]}}, "runs": c13_runs, "level": "exploration",
        "technique": "exhaustive input enumeration of band_update_stats / band_choose_hello_time against a 128-bit reference (all 2^32 values of r in the thorough tier)",
        "rule": "one evaluation = one call of the real function with (r, begun, prior Ni) or (Ni); distinct_nontrivial counts distinct resulting (Ni | required interval) values observed",
        "assumptions": ["quick tier covers r in [0,2^20), [2^32-2^16,2^32), all 2^k+-2 and the points where 45*r^2 crosses 2^k; thorough covers every r"],
    },
    "C06": {
        "builds": EMIT, "runs": c06_runs, "level": "model_checking",
        "technique": "explicit-state BFS to fixpoint over session states; in every reachable state with a definite mapper an exhaustive Emit family (all descriptor tuples n<=2, n=3 and every n up to the frame capacity in one representative state per mapper class, over-declared counts) is executed and the ordered port-call log compared with the descriptor list",
        "assumptions": ["descriptor kinds outside {Probe, Train} are outside the property's domain",
                        "heavy families (n=3 tuples, all n, position sweeps, every non-zero 16-bit sequence number) run once per (mapper, apparent address) class, the n<=2 tuples in every state"],
    },
    "C10": {
        "builds": EMIT, "runs": c10_runs, "level": "model_checking",
        "technique": "explicit-state BFS to fixpoint over a two-responder world (A emits, B observes) with an in-flight frame queue; B's QueryResp checked against the frames delivered",
        "assumptions": ["in-flight queue bounded at 2 frames in the quick tier, 3 in the thorough tier (Emit disabled while it would overflow)", "three address assignments for (A,B)"],
    },
    "C07": {
        "builds": OBS, "runs": obs_runs("c07"), "level": "model_checking",
        "technique": "explicit-state BFS to fixpoint over a counting alphabet with a generator event (0..300 outstanding observations), product with an observation-set reference model; QueryResp decoded independently",
        "assumptions": ["observations differing only in kind or Ethernet destination are not in the alphabet (the statement does not say whether they are distinct)",
                        "generator bounded at 300 outstanding observations (the property's range)"],
    },
    "C19": {
        "builds": OBS, "runs": c19_runs, "level": "model_checking",
        "technique": "explicit-state BFS over a generator alphabet: boundedness = the reachable state set closes; allocation-ledger monitors on every transition of that closure and of the full protocol-alphabet closure",
        "assumptions": ["bound demanded: retained bytes <= 64 KiB + icon size; the actual cap is read from the fixpoint, not from a constant"],
    },
    "C02": {
        "builds": dict(PROTO, obs=OBS["main"]),
        "runs": lambda tier: proto_runs("c02")(tier) + [("obs", ["--mode", "c02o", "--mtu", str(m), "--wifi", "0"]) for m in (MTUS_MOD20 + [1500] if tier == "thorough" else [576, 589, 592, 593, 1492, 1500])]
                             + [("obs", ["--mode", "c02f", "--mtu", str(m), "--wifi", "0"]) for m in ((576, 1500, 9216) if tier == "thorough" else (576, 1500))],
        "level": "model_checking",
        "technique": "explicit-state BFS to fixpoint over the real parseFrame with an independent wire decoder as oracle, executed twice with different fresh-memory fill patterns and compared transition by transition",
        "assumptions": ["frames of the alphabet are complete (received length >= fixed part of their opcode) and the receive buffer starts zeroed; runt frames are C01's subject",
                        "visited set stores 128-bit hashes of the canonical state (hash compaction)"],
    },
    "C03": {
        "builds": PROTO, "runs": proto_runs("c03"), "level": "model_checking",
        "technique": "explicit-state BFS to fixpoint; every Discover variant tried in every reachable state; Hello decoded by an independent decoder and compared with the Discover",
        "assumptions": ["acceptance is decided by the C05 reference arbiter; nothing is demanded while it is 'unconstrained'"],
    },
    "C09": {
        "engine": "E1+E3",
        "builds": PROTO, "runs": proto_runs("c09"), "level": "model_checking",
        "technique": "product (bisimulation) exploration: closure of reachable states, Reset applied in each, then closure of (post-Reset, fresh) pairs under all continuations with byte-equal traces",
        "assumptions": ["trace equality is demanded, not state equality (stale unobservable fields are allowed)",
                        "quick tier uses the 18-event alphabet for prefix and continuation, thorough the full protocol alphabet"],
    },
    "C05": {
        "builds": {"main": {"sources": MC + ["checks/c05.c"], "modes": ["closure", "sweep", "addr"]}},
        "runs": c05_runs,
        "level": "model_checking",
        "technique": "explicit-state BFS to fixpoint over the real parseFrame (product with a 3-valued reference arbiter) + exhaustive 256x256 (ToS,opcode) single-step sweep",
        "assumptions": ["stations drawn from {M1,M2,M3,BR}; the core treats addresses only by equality/copy",
                        "commands from a non-mapper put the reference arbiter into 'unconstrained' until the next Reset (property leaves it open)",
                        "visited set stores 128-bit hashes of the canonical state (hash compaction)"],
    },
}


LEVEL_TEXT = {}
NOT_APPLICABLE = {}




# ----------------------------------------------------------------------------- C20 (configuration matrix)
def run_custom(pid, spec, tier, seed, replay):
    import json
    import re
    import subprocess
    import sys
    import time
    VERIF = os.path.dirname(os.path.dirname(os.path.abspath(__file__)))
    core_dir = os.path.join(REPO, "lltdResponder")
    tus = ["lltdBlock.c", "lltdAutomata.c", "lltdWire.c", "lltdTlvOps.c"]
    t0 = time.time()
    bdir = os.path.join(VERIF, "build", pid)
    cexdir = os.path.join(VERIF, "build", "cex")
    os.makedirs(bdir, exist_ok=True)
    os.makedirs(cexdir, exist_ok=True)
    for fn in os.listdir(cexdir):
        if fn.startswith(pid + "-"):
            os.unlink(os.path.join(cexdir, fn))
    port_h = open(os.path.join(core_dir, "lltdPort.h")).read()
    port_funcs = set(re.findall(r"\b(lltd_port_\w+)\s*\(", port_h))
    allowed_mem = {"memcpy", "memset", "memmove", "memcmp"}
    runtime_re = re.compile(r"^(__stack_chk_fail|__stack_chk_guard|_GLOBAL_OFFSET_TABLE_|__(u?div|u?mod|u?divmod|mul|ashl|ashr|lshr|cmp|ucmp|neg|ffs|clz|ctz|popcount|parity|bswap)[sdt]i[234]?|__udivmoddi4|__divmoddi4)$")
    viols = {}
    samples = []
    configs = []
    evals = 0
    outcomes = set()

    def viol(sig, detail, cfg):
        if sig in viols:
            viols[sig]["count"] += 1
            return
        path = os.path.join(cexdir, "%s-matrix-%d.json" % (pid, len(viols)))
        json.dump({"property": pid, "sig": sig, "detail": detail, "config": cfg}, open(path, "w"))
        viols[sig] = {"sig": sig, "count": 1, "detail": detail, "cex": path}

    matrix = [(cc, opt, fs) for cc in ("gcc", "clang") for opt in ("-O0", "-O2", "-Os") for fs in (False, True)]
    if replay:
        cex = json.load(open(replay))
        print("replaying configuration:", cex.get("config"))
        c = cex.get("config") or {}
        matrix = [m for m in matrix if not c.get("cc") or (m[0] == c["cc"] and m[1] == c["opt"] and m[2] == c["freestanding"])]
    for cc, opt, fs in matrix:
        cfg = {"cc": cc, "opt": opt, "freestanding": fs}
        objs = []
        ok = True
        for tu in tus:
            obj = os.path.join(bdir, "%s-%s-%s-%s.o" % (tu[:-2], cc, opt.strip("-"), "fs" if fs else "hosted"))
            cmd = [cc, opt, "-w", "-fno-common", "-c", os.path.join(core_dir, tu), "-o", obj, "-I", core_dir] + (["-ffreestanding"] if fs else [])
            r = subprocess.run(cmd, stdout=subprocess.PIPE, stderr=subprocess.PIPE, text=True)
            evals += 1
            if r.returncode != 0:
                viol("core-does-not-compile:%s" % ("freestanding" if fs else "hosted"), "%s %s %s%s: %s" % (cc, opt, tu, " -ffreestanding" if fs else "", r.stderr.strip().splitlines()[-1] if r.stderr.strip() else "?"), dict(cfg, tu=tu))
                ok = False
                break
            objs.append(obj)
        if not ok:
            continue
        link = os.path.join(bdir, "core-%s-%s-%s.o" % (cc, opt.strip("-"), "fs" if fs else "hosted"))
        r = subprocess.run(["ld", "-r", "-o", link] + objs, stdout=subprocess.PIPE, stderr=subprocess.PIPE, text=True)
        evals += 1
        if r.returncode != 0:
            viol("core-does-not-link-relocatably", r.stderr.strip()[-300:], cfg)
            continue
        und = subprocess.run(["nm", "-u", link], stdout=subprocess.PIPE, text=True).stdout.split()
        und = sorted(set(x for x in und if x not in ("U", "w")))
        foreign = [s_ for s_ in und if s_ not in port_funcs and s_ not in allowed_mem and not runtime_re.match(s_)]
        for s_ in foreign:
            viol("undefined-symbol-outside-port-api:%s" % s_, "%s %s%s: the relocatably linked core references '%s', which is neither declared in lltdPort.h nor a memory primitive / compiler runtime symbol" % (cc, opt, " -ffreestanding" if fs else "", s_), dict(cfg, symbol=s_))
        sizes = subprocess.run(["size", "-A", link], stdout=subprocess.PIPE, text=True).stdout
        writable = {}
        for line in sizes.splitlines():
            parts = line.split()
            if len(parts) >= 2 and parts[0] in (".data", ".bss") or (len(parts) >= 2 and (parts[0].startswith(".data.") or parts[0].startswith(".bss."))):
                writable[parts[0]] = int(parts[1])
        configs.append({"args": "%s %s %s" % (cc, opt, "freestanding" if fs else "hosted"), "undefined": und, "writable_bytes": writable})
        outcomes.add((tuple(und), tuple(sorted(writable.items()))))
        outcomes.add((cc, opt, fs))
    # the repository's own lint rule
    if not replay:
        r = subprocess.run(["bash", os.path.join(REPO, "scripts", "lint_core_no_os_conditionals.sh")], cwd=REPO, stdout=subprocess.PIPE, stderr=subprocess.PIPE, text=True)
        evals += 1
        if r.returncode != 0:
            viol("repo-lint-fails", (r.stderr.strip() or r.stdout.strip())[-400:], {"lint": True})
        # every #include of the core resolves inside lltdResponder/ or is a freestanding header
        freestanding = {"stdint.h", "stddef.h", "stdbool.h", "stdarg.h", "limits.h", "float.h", "iso646.h", "stdalign.h", "stdnoreturn.h"}
        for fn in sorted(os.listdir(core_dir)):
            if not fn.endswith((".c", ".h")):
                continue
            for ln, line in enumerate(open(os.path.join(core_dir, fn), errors="replace"), 1):
                m = re.match(r'\s*#\s*include\s*([<"])([^>"]+)[>"]', line)
                if not m:
                    continue
                evals += 1
                hdr = m.group(2)
                if m.group(1) == '"':
                    if not os.path.exists(os.path.join(core_dir, hdr)):
                        viol("include-outside-core:%s" % hdr, "%s:%d includes \"%s\", which is not a file of lltdResponder/" % (fn, ln, hdr), {"file": fn, "line": ln})
                elif hdr not in freestanding:
                    viol("hosted-header-in-core:%s" % hdr, "%s:%d includes <%s>, which is not a freestanding C header" % (fn, ln, hdr), {"file": fn, "line": ln})
        samples.append("lint script scripts/lint_core_no_os_conditionals.sh: exit %d" % r.returncode)
    samples += ["%s: undefined = %s; writable sections = %s" % (c["args"], " ".join(c["undefined"]), c["writable_bytes"]) for c in configs[:3]]
    sys.path.insert(0, os.path.join(VERIF, "bin"))
    known = {}
    kf = os.path.join(VERIF, "KNOWN_FINDINGS.txt")
    if os.path.exists(kf):
        for line in open(kf):
            if line.startswith("finding:") and ("property=%s " % pid) in line:
                head, _, what = line[len("finding:"):].partition("::")
                kv = dict(x.split("=", 1) for x in head.split() if "=" in x)
                known[kv.get("sig")] = what.strip()
    unlisted = [v for s_, v in viols.items() if s_ not in known]
    for s_, v in viols.items():
        if s_ in known:
            print("KNOWN-FINDING: property=%s %s (%s)" % (pid, s_, known[s_]))
    for v in unlisted:
        print("VIOLATION property=%s replay=%s" % (pid, v["cex"]))
        print("  signature: %s\n  diagnosis: %s" % (v["sig"], v["detail"]))
    wall = time.time() - t0
    if replay:
        return 1 if unlisted else 0
    ev = {"property_id": pid, "tier": tier, "seed": seed, "level": "other",
          "coverage": {"explanation": "complete enumeration of the configuration matrix {gcc, clang} x {-O0, -O2, -Os} x {hosted, -ffreestanding}: the four core translation units are compiled from the working tree, linked relocatably, and the undefined symbols of every link are checked against the functions declared in lltdPort.h (parsed at check time) plus memcpy/memset/memmove/memcmp and compiler runtime helpers; plus the repository's own lint script and an include audit of lltdResponder/. This is exhaustive enumeration of a finite configuration space with a symbol-table oracle, not of executions.",
                       "evaluations": evals, "distinct_nontrivial": len(outcomes), "rule": "one evaluation = one compilation, relocatable link, lint run or #include line; distinct = distinct (compiler, optimisation, mode) configurations and distinct undefined-symbol sets",
                       "samples": samples or ["(none)"], "exhaustive": True, "configurations": configs, "port_functions_declared": sorted(port_funcs),
                       "known_findings_matched": [s_ for s_ in viols if s_ in known], "violation_signatures": [v["sig"] for v in unlisted]},
          "assumptions": spec.get("assumptions", []), "wall_s": round(wall, 3), "violations": len(unlisted), "technique": spec.get("technique", "")}
    evdir = os.path.join(VERIF, "evidence") if REPO == "/repo" else os.path.join(VERIF, "build", "evidence-scratch")
    os.makedirs(evdir, exist_ok=True)
    json.dump(ev, open(os.path.join(evdir, pid + ".json"), "w"), indent=1)
    print("%s %s: %d compilations/links/lint checks over %d configurations, %d distinct outcomes, wall=%.1fs violations=%d known=%d" % (pid, tier, evals, len(configs), len(outcomes), wall, len(unlisted), len(viols) - len(unlisted)))
    return 1 if unlisted else 0
