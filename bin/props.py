"""Per-property registry for bin/vcheck: what to build, which engine runs to start, evidence level."""

MC = ["mc/world.c", "mc/wire.c", "mc/report.c", "mc/e1.c", "mc/sigma.c"]
MTUS_Q = [576, 1500]
MTUS_T = [576, 577, 1500, 9216]


def cfgs(mtus, wifis=(0, 1)):
    return [["--mtu", str(m), "--wifi", str(w)] for m in mtus for w in wifis]


def c05_runs(tier):
    mt = MTUS_T if tier == "thorough" else MTUS_Q
    runs = [("main", ["--mode", "closure"] + c) for c in cfgs(mt)]
    runs += [("main", ["--mode", "sweep", "--mtu", "1500", "--wifi", "0"])]
    if tier == "thorough":
        runs += [("main", ["--mode", "sweep", "--mtu", "576", "--wifi", "1"])]
    return runs


PROPS = {
    "C05": {
        "builds": {"main": {"sources": MC + ["checks/c05.c"], "modes": ["closure", "sweep"]}},
        "runs": c05_runs,
        "level": "model_checking",
        "technique": "explicit-state BFS to fixpoint over the real parseFrame (product with a 3-valued reference arbiter) + exhaustive 256x256 (ToS,opcode) single-step sweep",
        "assumptions": ["stations drawn from {M1,M2,M3,BR}; the core treats addresses only by equality/copy",
                        "commands from a non-mapper put the reference arbiter into 'unconstrained' until the next Reset (property leaves it open)",
                        "visited set stores 128-bit hashes of the canonical state (hash compaction)"],
    },
}


def run_custom(pid, spec, tier, seed, replay):
    raise SystemExit("no custom engine for " + pid)
