int main(void){return 0;}
