/* C01 - the real embedded Linux daemon receive path, driven in-process:
 * os/linux/daemon/linux-embedded-main.c is #included into this translation unit (its main() renamed),
 * so fillInterfaceDetails' malloc(MTU) and lltdLoop's recvfrom(..., MTU) are the ones in the tree; it is
 * linked with the real os/linux/lltd_port.c and the core.  socket/bind/ioctl/if_nametoindex/recvfrom/
 * close are answered by this harness (ioctl answers the MTU under test, recvfrom copies
 * min(len argument, frame length) bytes of the next scripted frame), sendto/nanosleep/clock_gettime/
 * gethostname/getifaddrs are interposed for the port layer.  ASan/UBSan is the oracle. */
#define _GNU_SOURCE
#include <errno.h>
#include <ifaddrs.h>
#include <linux/if_ether.h>
#include <net/if.h>
#include <netpacket/packet.h>
#include <pthread.h>
#include <signal.h>
#include <stdarg.h>
#include <stdbool.h>
#include <stdio.h>
#include <stdlib.h>
#include <string.h>
#include <sys/ioctl.h>
#include <sys/socket.h>
#include <time.h>
#include <unistd.h>

#include "../mc/forkrun.h"

uint8_t vf_station[64][6] = {
    [ST_OWN]  = {0x02, 0x11, 0x22, 0x33, 0x44, 0x55}, [ST_M1] = {0x00, 0x15, 0x5d, 0xaa, 0xbb, 0x01}, [ST_M2] = {0x00, 0x15, 0x5d, 0xaa, 0xbb, 0x02},
    [ST_BR]   = {0x00, 0x0c, 0x29, 0x01, 0x02, 0x03}, [ST_S0] = {0x00, 0x50, 0x56, 0x00, 0x00, 0x10}, [ST_PEER] = {0x02, 0x11, 0x22, 0x33, 0x44, 0x54},
    [ST_BC]   = {0xff, 0xff, 0xff, 0xff, 0xff, 0xff},
};
#include "shapes.h"

/* ------------------------------------------------------------ scripted environment */
static size_t script_mtu;
static const int *script; static int script_n, script_pos; static int script_first;   /* indices into FULL, optional first shape */
static uint8_t image[VF_MAXMTU + 64];
static uint64_t sends, recvs;
static volatile sig_atomic_t *exit_flag_ptr;

static int vf_socket(int d, int t, int p) { (void)d; (void)t; (void)p; return 100; }
static int vf_bind(int fd, const struct sockaddr *a, socklen_t l) { (void)fd; (void)a; (void)l; return 0; }
static unsigned vf_if_nametoindex(const char *n) { (void)n; return 7; }
static int vf_close(int fd) { (void)fd; return 0; }
static int vf_ioctl(int fd, unsigned long req, void *arg) {
    struct ifreq *ifr = arg; (void)fd;
    if (req == SIOCGIFMTU) { ifr->ifr_mtu = (int)script_mtu; return 0; }
    if (req == SIOCGIFHWADDR) { memcpy(ifr->ifr_hwaddr.sa_data, vf_station[ST_OWN], 6); return 0; }
    if (req == SIOCGIFFLAGS) { ifr->ifr_flags = IFF_UP | IFF_RUNNING; return 0; }
    return -1;
}
static ssize_t vf_recvfrom(int fd, void *buf, size_t len, int flags, struct sockaddr *a, socklen_t *al) {
    (void)fd; (void)flags; (void)a; (void)al;
    const shape *s;
    if (script_first >= 0) { s = &FIRST[script_first]; script_first = -1; }
    else {
        if (script_pos >= script_n) { *exit_flag_ptr = 1; return -1; }
        s = &FULL[script[script_pos++]];
    }
    fr_note((uint64_t)script_pos);
    size_t L = render(s, image);
    if (L > len) L = len;                /* the kernel writes at most the length the daemon passed */
    memcpy(buf, image, L);
    recvs++;
    return (ssize_t)L;
}
static FILE *vf_fopen(const char *path, const char *mode) { if (!strcmp(path, "/dev/console")) return NULL; return fopen(path, mode); }

/* interposed for os/linux/lltd_port.c (separate translation unit) */
ssize_t sendto(int fd, const void *buf, size_t len, int flags, const struct sockaddr *a, socklen_t al) {
    (void)fd; (void)flags; (void)a; (void)al;
    static volatile uint8_t sink; const uint8_t *b = buf;
    for (size_t i = 0; i < len; i++) sink ^= b[i];            /* touch every byte: an over-long length is an ASan report */
    sends++;
    return (ssize_t)len;
}
int nanosleep(const struct timespec *r, struct timespec *m) { (void)r; (void)m; return 0; }
static uint64_t fake_ns = 5000000000ull;
int clock_gettime(clockid_t c, struct timespec *ts) { (void)c; fake_ns += 1000000; ts->tv_sec = (time_t)(fake_ns / 1000000000ull); ts->tv_nsec = (long)(fake_ns % 1000000000ull); return 0; }
int gethostname(char *name, size_t len) { snprintf(name, len, "verif-embedded-host-with-a-long-name-0123456789"); return 0; }
int getifaddrs(struct ifaddrs **ifap) { *ifap = NULL; return 0; }
void freeifaddrs(struct ifaddrs *ifa) { (void)ifa; }

#define socket vf_socket
#define bind vf_bind
#define if_nametoindex vf_if_nametoindex
#define ioctl vf_ioctl
#define recvfrom vf_recvfrom
#define close vf_close
#define fopen vf_fopen
#define main lltd_embedded_main
#include VF_DAEMON_C
#undef main
#undef socket
#undef bind
#undef if_nametoindex
#undef ioctl
#undef recvfrom
#undef close
#undef fopen

extern uint8_t __start_core_bss[] __attribute__((weak)), __stop_core_bss[] __attribute__((weak));
__attribute__((no_sanitize("address"))) static void reset_core(void) { for (uint8_t *p = __start_core_bss; p < __stop_core_bss; p++) *p = 0; }

/* ------------------------------------------------------------ executions */
#define CHUNK 2000
static int NCHUNK; static int *order;

static void exec_session(uint64_t idx) {
    static int quiet;
    if (!quiet) { stderr = fopen("/dev/null", "w"); quiet = 1; }        /* daemon / port logging; fd 2 stays with the sanitizers */
    int f1 = (int)(idx / (uint64_t)NCHUNK), chunk = (int)(idx % (uint64_t)NCHUNK);
    reset_core();
    exitFlag = 0; exit_flag_ptr = &exitFlag;
    script = order + (size_t)chunk * CHUNK; script_n = (chunk + 1) * CHUNK > NFULL ? NFULL - chunk * CHUNK : CHUNK; script_pos = 0;
    script_first = f1 == 0 ? -1 : f1 - 1;
    embedded_interface_ctx_t ctx; memset(&ctx, 0, sizeof ctx);
    if (!fillInterfaceDetails(&ctx.iface, "vf0")) vf_harness_error("fillInterfaceDetails failed");
    /* the daemon never clears the buffer: start from the configured fill pattern */
    memset(ctx.iface.recvBuffer, (int)A.fill, ctx.iface.MTU);
    ctx.mapping = init_automata_mapping(); ctx.session = init_automata_session();
    lltdLoop(&ctx);
    free(ctx.iface.recvBuffer); free((void *)ctx.iface.deviceName);
    freeAutomata(ctx.mapping); freeAutomata(ctx.session);
    uint64_t o[2] = { sends, (uint64_t)chunk }; if ((idx & 7) == 0) vf_outcome(vf_hash64(o, sizeof o, 4));
    sends = 0;
}
static void describe(uint64_t idx, FILE *f) {
    int f1 = (int)(idx / (uint64_t)NCHUNK), chunk = (int)(idx % (uint64_t)NCHUNK);
    fprintf(f, "\"events\":[%llu],\"first_frame\":%d,\"chunk\":%d,\"frame_in_chunk\":%llu", (unsigned long long)idx, f1 - 1, chunk, (unsigned long long)fr_last_note);
    uint64_t k = fr_last_note ? fr_last_note - 1 : 0;
    if ((size_t)chunk * CHUNK + k < (size_t)NFULL) { fprintf(f, ",\"frame\":"); shape_json(f, &FULL[order[(size_t)chunk * CHUNK + k]]); }
}

int main(int argc, char **argv) {
    vf_parse_args(argc, argv, "C01");
    MTU = script_mtu = A.mtu; OWN = vf_station[ST_OWN];
    build_full(); build_first(vf_thorough() ? 40 : 12);
    NCHUNK = (NFULL + CHUNK - 1) / CHUNK;
    /* frame order: a fixed stride permutation so that neighbours in a chunk differ in opcode and length */
    order = malloc(sizeof(int) * (size_t)NFULL);
    { uint64_t stride = 7919; while (NFULL % (int)stride == 0) stride += 2; for (int i = 0; i < NFULL; i++) order[i] = (int)(((uint64_t)i * stride) % (uint64_t)NFULL); }
    fr_cfg fc = { .exec = exec_session, .describe = describe, .sig_prefix = "memory-safety:embedded-daemon" };
    fr_stats st;
    double t0 = vf_now_s();
    if (A.replay) {
        FILE *f = fopen(A.replay, "r"); static char buf[1 << 16]; size_t n = f ? fread(buf, 1, sizeof buf - 1, f) : 0; buf[n] = 0; if (f) fclose(f);
        char *q = strstr(buf, "\"events\":["); if (!q) return 2;
        uint64_t idx = strtoull(q + 10, NULL, 10); fc.max_same_sig = 1;
        for (int round = 0; round < 2; round++) { fr_run(&fc, idx, idx + 1, &st); printf("replay round %d of daemon session %llu: %s\n", round, (unsigned long long)idx, st.deaths ? "sanitizer report / crash reproduced" : "ran clean"); }
        return vf_nviolations() ? 1 : 0;
    }
    uint64_t total = (uint64_t)(NFIRST + 1) * (uint64_t)NCHUNK;
    fr_run(&fc, total * (uint64_t)A.part / (uint64_t)A.nparts, total * (uint64_t)(A.part + 1) / (uint64_t)A.nparts, &st);
    R.evaluations = st.executed * CHUNK; R.exhaustive = st.cap == NULL; R.cap_hit = st.cap;
    vf_sample("embedded daemon: (%d first frames + none) x %d chunks of %d frames through the real fillInterfaceDetails / lltdLoop (malloc(MTU), recvfrom(..., MTU)), MTU %zu, buffer pre-filled 0x%02x", NFIRST, NCHUNK, CHUNK, MTU, A.fill);
    R.wall_s = vf_now_s() - t0;
    vf_write_results();
    return 0;
}
