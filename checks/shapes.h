/* Frame shapes for the C01 enumeration: per-opcode products of field classes (shared by the
 * E4 harness and the embedded-daemon driver). */
#ifndef SHAPES_H
#define SHAPES_H
#include <stdlib.h>
#include <string.h>
/* ------------------------------------------------------------ shapes */
typedef struct shape { uint8_t opcode, tos, lenc, cntc, seqc, role, dtype, dpause, ltype, tail; } shape;
static shape *FULL; static int NFULL;
static shape FIRST[256]; static int NFIRST;
static size_t MTU;
static const uint8_t *OWN;

static size_t len_of(int lenc) { static const size_t L[15] = {0, 1, 13, 14, 17, 18, 31, 32, 33, 34, 35, 36, 37, 46, 50}; return lenc < 15 ? L[lenc] : lenc == 15 ? MTU - 1 : MTU; }
static unsigned fit_of(uint8_t opcode) { return opcode == 0x00 ? (unsigned)((MTU - 36) / 6) : opcode == 0x02 ? (unsigned)((MTU - 34) / 14) : 2600u; }
static uint16_t cnt_of(uint8_t opcode, int c) { unsigned f = fit_of(opcode); switch (c) { case 0: return 0; case 1: return 1; case 2: return (uint16_t)f; case 3: return (uint16_t)(f + 1); case 4: return 0x7FFF; case 5: return 0x8000; default: return 0xFFFF; } }
static uint16_t seq_of(int c) { return c == 0 ? 0 : c == 1 ? 1 : 0xFFFF; }
static const uint8_t ROLE[6][3] = { {ST_M1, ST_M1, ST_OWN}, {ST_M1, ST_BR, ST_OWN}, {ST_M2, ST_M2, ST_BC}, {ST_OWN, ST_OWN, ST_OWN}, {ST_BC, ST_BC, ST_M1}, {ST_M1, ST_M1, ST_M1} };
static const uint8_t *A_(int st) { return st == ST_OWN ? OWN : vf_station[st]; }

static void add_full(shape s) { FULL[NFULL++] = s; }
static void build_full(void) {
    FULL = malloc(sizeof(shape) * 200000); NFULL = 0;
    static const uint8_t ops8[8] = {0x00, 0x01, 0x02, 0x03, 0x04, 0x06, 0x08, 0x0B};
    static const uint8_t tos4[4] = {0, 1, 2, 0xFF};
    for (int oi = 0; oi < 8; oi++) for (int ti = 0; ti < 4; ti++) for (int lc = 0; lc < 17; lc++) for (int sc = 0; sc < 3; sc++) for (int r = 0; r < 6; r++) {
        uint8_t op = ops8[oi];
        int ncnt = (op == 0x00 || op == 0x02 || op == 0x0B || op == 0x01) ? 7 : 1;
        for (int cc = 0; cc < ncnt; cc++) {
            shape s = { op, tos4[ti], (uint8_t)lc, (uint8_t)cc, (uint8_t)sc, (uint8_t)r, 1, 0, 0x0E, 0 };
            add_full(s);
        }
    }
    /* Emit descriptor kinds x pauses; QueryLargeTlv: all 256 property types */
    static const uint8_t dt[4] = {0, 1, 2, 0xFF}, dp[2] = {0, 255};
    for (int ti = 0; ti < 4; ti++) for (int lc = 0; lc < 17; lc++) for (int cc = 0; cc < 7; cc++) for (int a = 0; a < 4; a++) for (int b = 0; b < 2; b++) {
        shape s = { 0x02, tos4[ti], (uint8_t)lc, (uint8_t)cc, 1, 0, dt[a], dp[b], 0, 0 }; add_full(s);
    }
    for (int ti = 0; ti < 4; ti++) for (int lc = 0; lc < 17; lc++) for (int ty = 0; ty < 256; ty++) for (int cc = 0; cc < 7; cc += 3) {
        shape s = { 0x0B, tos4[ti], (uint8_t)lc, (uint8_t)cc, 1, (uint8_t)(ty & 1), 1, 0, (uint8_t)ty, 0 }; add_full(s);
    }
    /* the other 248 opcodes */
    static const uint8_t tos6[6] = {0, 1, 2, 3, 0x80, 0xFF}; static const uint8_t lc5[5] = {0, 4, 5, 7, 16};
    for (int op = 0; op < 256; op++) {
        int known = 0; for (int i = 0; i < 8; i++) if (ops8[i] == op) known = 1;
        if (known) continue;
        for (int ti = 0; ti < 6; ti++) for (int l = 0; l < 5; l++) { shape s = { (uint8_t)op, tos6[ti], lc5[l], 0, 1, 0, 1, 0, 0, (uint8_t)(op & 1) }; add_full(s); }
    }
}
static void build_first(int want) {
    NFIRST = 0;
#define F(op, tos, cc, sc, r, dt_, dp_, lt, tl) do { shape s = { op, tos, 16, cc, sc, r, dt_, dp_, lt, tl }; if (NFIRST < want) FIRST[NFIRST++] = s; } while (0)
    F(0x00, 0, 2, 1, 0, 1, 0, 0, 0);      /* Discover from M1 with a maximal station list */
    F(0x02, 0, 2, 1, 0, 1, 255, 0, 0);    /* maximal Emit: a valid descriptor array fills the buffer */
    F(0x0D, 0, 0, 1, 0, 1, 0, 0, 1);      /* full-MTU image, tail all 0xFF */
    F(0x04, 0, 0, 1, 0, 1, 0, 0, 0);      /* Probe for us */
    F(0x0B, 0, 0, 1, 0, 1, 0, 0x0E, 0);   /* QueryLargeTlv icon: fills the cache */
    F(0x08, 0, 0, 1, 0, 1, 0, 0, 0);      /* Reset */
    F(0x0D, 1, 0, 1, 0, 1, 0, 0, 2);      /* full-MTU image, tail all 0x00 */
    F(0x06, 0, 0, 1, 1, 1, 0, 0, 0);      /* Query from a bridged mapper */
    F(0x00, 1, 6, 2, 1, 1, 0, 0, 1);      /* quick Discover, count 0xFFFF, tail 0xFF */
    F(0x02, 0, 6, 2, 0, 0, 0, 0, 0);      /* Emit declaring 0xFFFF descriptors */
    F(0x03, 0, 0, 1, 1, 1, 0, 0, 0);      /* Train, bridged */
    F(0x0B, 1, 6, 1, 0, 1, 0, 0x11, 0);   /* quick QueryLargeTlv friendly name, offset 0xFFFF */
    F(0x01, 0, 1, 0, 2, 1, 0, 0, 0);      /* Hello heard */
    F(0x08, 1, 0, 1, 0, 1, 0, 0, 0);      /* quick Reset */
    F(0x0B, 0, 2, 1, 0, 1, 0, 0x13, 0);   /* hardware id */
    F(0x09, 0, 0, 1, 0, 1, 0, 0, 0);      /* Charge */
    F(0x02, 0, 1, 1, 1, 0xFF, 7, 0, 0);   /* Emit with an unknown descriptor kind */
    F(0x00, 0, 0, 0, 3, 1, 0, 0, 2);      /* Discover whose real source is our own address */
    F(0x06, 0, 0, 2, 2, 1, 0, 0, 1);
    F(0x04, 0, 0, 1, 4, 1, 0, 0, 1);
    for (int op = 0; op < 13 && NFIRST < want; op++) for (int t = 0; t < 3 && NFIRST < want; t++) F((uint8_t)op, (uint8_t)t, (uint8_t)(3 + t), (uint8_t)t, (uint8_t)((op + t) % 6), (uint8_t)t, 255, (uint8_t)(0x0E + op), (uint8_t)t);
#undef F
}

static size_t render(const shape *s, uint8_t *img) {
    /* full MTU image: fixed part, then a maximal well-formed body, then the tail pattern */
    memset(img, s->tail == 1 ? 0xFF : s->tail == 2 ? 0x00 : 0xEE, MTU);
    const uint8_t *rs = A_(ROLE[s->role][0]), *es = A_(ROLE[s->role][1]), *rd = A_(ROLE[s->role][2]);
    fb_base(img, rd, es, s->tos, s->opcode, rd, rs, seq_of(s->seqc));
    uint16_t c = cnt_of(s->opcode, s->cntc);
    if (s->opcode == 0x00 || s->opcode == 0x01) {
        img[32] = (uint8_t)(c >> 8); img[33] = (uint8_t)c;           /* generation */
        if (s->opcode == 0x00) {
            img[34] = (uint8_t)(c >> 8); img[35] = (uint8_t)c;       /* station count */
            if (!s->tail) { unsigned f = fit_of(0x00); for (unsigned i = 0; i < f; i++) { uint8_t a[6] = {0, 0x1b, 0x21, 0, (uint8_t)(i >> 8), (uint8_t)i}; memcpy(img + 36 + 6 * i, i == f - 1 ? OWN : a, 6); } }
        } else if (!s->tail) { memcpy(img + 34, vf_station[ST_M1], 6); memcpy(img + 40, vf_station[ST_M1], 6); img[46] = 1; img[47] = 6; memcpy(img + 48, rs, 6); img[54] = 0; }
    } else if (s->opcode == 0x02) {
        img[32] = (uint8_t)(c >> 8); img[33] = (uint8_t)c;
        if (!s->tail) { unsigned f = fit_of(0x02); for (unsigned i = 0; i < f; i++) { uint8_t *p = img + 34 + 14 * i; p[0] = s->dtype; p[1] = s->dpause; memcpy(p + 2, vf_station[ST_S0], 6); memcpy(p + 8, (i & 1) ? OWN : vf_station[ST_PEER], 6); } }
    } else if (s->opcode == 0x0B) { img[32] = s->ltype; img[33] = 0; img[34] = (uint8_t)(c >> 8); img[35] = (uint8_t)c; }
    return len_of(s->lenc);
}


static void shape_json(FILE *f, const shape *s) { fprintf(f, "{\"opcode\":%u,\"tos\":%u,\"recv_len\":%zu,\"counter\":%u,\"seq\":%u,\"role\":%u,\"desc_type\":%u,\"desc_pause\":%u,\"ltype\":%u,\"tail\":%u}", s->opcode, s->tos, len_of(s->lenc), cnt_of(s->opcode, s->cntc), seq_of(s->seqc), s->role, s->dtype, s->dpause, s->ltype, s->tail); }
#endif
