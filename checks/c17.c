/* C17 - interfaces are isolated from each other, also when served concurrently.
 *  --mode seq  (plain flavour): E3 over the triple (W with interfaces A and B, solo world S_A, solo world
 *              S_B): an event on interface X is applied to W and to S_X, transmissions must be identical;
 *              closure of the triple set covers every interleaving of two histories of any length.
 *  --mode conc (tsanabi flavour): E6, preemption-bounded enumeration of all schedules of two threads,
 *              each handling a short history on its own interface, at memory-access granularity;
 *              oracles: per-interface trace = solo trace (after an observation suffix), ledger, race detector. */
#include "../mc/sigma.h"

#include <stdlib.h>
#include <string.h>

static pev EV[16]; static int NEVT;
static void build_events(int for_conc) {
    NEVT = 0;
    EV[NEVT++] = ev_discover(0, ST_M1, ST_M1, 0x0a0a, 1);
    EV[NEVT++] = ev_discover(0, ST_M2, ST_BR, 0x0b0b, 2);
    EV[NEVT++] = ev_probe(0x04, 0, ST_S0, ST_S0, ST_OWN, ST_OWN);
    EV[NEVT++] = ev_query(0, ST_M1, ST_M1, 3);
    EV[NEVT++] = ev_qlt(0, ST_M1, ST_M1, 5, 0x0E, 0);
    EV[NEVT++] = ev_emit1(0, ST_M1, ST_M1, 7, 1, 0, ST_S0, ST_PEER);
    EV[NEVT++] = ev_reset(0, ST_M1);
    if (for_conc) EV[NEVT++] = ev_qlt(0, ST_M1, ST_M1, 6, 0x13, 0);      /* the hardware-ID property: the one large property that is built in a scratch area per request */
    if (!for_conc) EV[NEVT++] = ev_reset(1, ST_M1);
    if (!for_conc) EV[NEVT++] = ev_probe(0x04, 0, ST_S1, ST_S1, ST_SIB, ST_SIB);     /* a probe for the sibling interface's address, seen on this one (both on one segment) */
}

#ifndef VF_TSANABI
/* ================================================================ sequential clause */
#include "../mc/e3.h"
static int NI = 2;       /* interfaces in the combined world (seq: 2, seq3: 3) */
static void sname(int ev, char *b, size_t cap) { char n[140]; pev_name(&EV[ev % NEVT], n, sizeof n); snprintf(b, cap, "if%c: %s", 'A' + ev / NEVT, n); }
static int touches(int ev, int w) { return w == 0 || w == ev / NEVT + 1; }
static void apply3(int ev, int w) { (void)w; drv_linux(&EV[ev % NEVT], ev / NEVT); }
static const char *sig_of(int ev) { static char b[40]; snprintf(b, sizeof b, "if%c,op=0x%02x", 'A' + ev / NEVT, EV[ev % NEVT].opcode); return b; }
static void after(int ev, int w) {
    int want = ev / NEVT;
    for (uint32_t i = 0; i < W.ntrace; i++) if (W.trace[i].kind == VF_T_SEND && W.trace[i].iface != want)
        vf_violation("isolation:sent-on-the-other-interface", "a frame received on interface %c made the responder transmit on interface %u (world %d)", 'A' + want, W.trace[i].iface, w);
}
/* --a 3: every transmit is refused (in all worlds): error paths must not touch what the interfaces share (the heap) */
static void seed_from_prefix(const int *p, int n, vf_snap **s) {
    (void)p; (void)n; vf_world_reset();
    if (A.a == 3) { W.fp.active = 1; W.fp.sticky_kind = VF_F_SEND; W.fp.sticky_from = 0; }
    for (int k = 0; k <= NI; k++) s[k] = vf_snapshot(NULL, 0);
}
static e3_cfg c3 = { .nworlds = 3, .ev_name = sname, .pre_name = sname, .touches = touches, .apply = apply3, .after_apply = after, .sig_prefix = "isolation:interleaved-trace-differs-from-solo",
                     .sig_of = sig_of, .same_iface = 1, .seed_from_prefix = seed_from_prefix };

int main(int argc, char **argv) {
    vf_parse_args(argc, argv, "C17");
    vf_world_init(A.mtu, A.wifi, (uint8_t)A.fill);
    /* the two interfaces differ in every attribute */
    W.iface[1].flags = 0x0800; W.iface[1].iftype = 71; W.iface[1].speed = 540000; W.iface[1].wifi = !A.wifi; W.iface[1].mtu = A.mtu == 1500 ? 576 : 1500;
    if (A.a == 2) W.iface[1].fail = 0xFFFFFFFFu;   /* every per-interface getter of B fails (also in its solo world): none of its fallbacks may depend on A */
    if (A.a == 1) W.iface[1].fail |= VF_G_MTU;      /* interface B's MTU getter fails (also in its solo world): its fallback must not depend on what interface A reported */
    build_events(0);
    if (!strcmp(A.mode, "seq3")) {      /* three interfaces: a smaller per-interface alphabet keeps the cube closable */
        NI = 3; W.iface[2].flags = 0x2800; W.iface[2].iftype = 6; W.iface[2].speed = 1000; W.iface[2].mtu = 9216;
        EV[1] = EV[2]; EV[2] = EV[3]; EV[3] = EV[4]; EV[4] = EV[6]; NEVT = 5;      /* Discover(M1), Probe, Query, icon request, Reset */
    }
    c3.nworlds = NI + 1; c3.nev = NI * NEVT; c3.deadline_s = A.deadline;
    if (A.replay) { A.verbose = 1; return e3_replay_file(&c3, A.replay); }
    double t0 = vf_now_s();
    e3_begin(&c3);
    vf_snap *s[E3_MAXW]; seed_from_prefix(NULL, 0, s); int none = 0; e3_add_seed(s, &none, 0);
    e3_stats st; e3_run(&st);
    R.states = st.states; R.transitions = st.executions; R.evaluations = st.executions; R.max_depth = st.max_depth; R.fixpoint = st.fixpoint; R.exhaustive = st.fixpoint; R.cap_hit = st.cap;
    vf_extra("triples", "%llu reachable (W, S_A, S_B) triples, %llu events applied (%llu executions of the real handler)", (unsigned long long)st.states, (unsigned long long)st.transitions, (unsigned long long)st.executions);
    R.wall_s = vf_now_s() - t0;
    vf_write_results();
    return 0;
}
#else
/* ================================================================ concurrent clause */
#include "../mc/tsan_hooks.h"
#include <stdio.h>

/* histories: index h in [0, NEVT) = one event; NEVT + a*NEVT + b = two events */
static int NH;
static int hist_len(int h) { return h < NEVT ? 1 : 2; }
static int hist_ev(int h, int k) { return h < NEVT ? h : (k == 0 ? (h - NEVT) / NEVT : (h - NEVT) % NEVT); }
static void hist_name(int h, char *b, size_t cap) { size_t o = 0; for (int k = 0; k < hist_len(h); k++) { char n[140]; pev_name(&EV[hist_ev(h, k)], n, sizeof n); o += (size_t)snprintf(b + o, cap - o, "%s%s", k ? " ; " : "", n); } }

static int H[2];
static void run_hist(int iface) { for (int k = 0; k < hist_len(H[iface]); k++) drv_linux(&EV[hist_ev(H[iface], k)], iface); }
static void body0(void) { run_hist(0); }
static void body1(void) { run_hist(1); }
static void suffix(int iface) {      /* observation phase, sequential: exposes lost or mixed-up state */
    pev d = ev_discover(1, ST_M3, ST_M3, 0x0c0c, 9); drv_linux(&d, iface);
    pev q = ev_query(0, ST_M1, ST_M1, 0x0d0d); drv_linux(&q, iface);
    pev l = ev_qlt(0, ST_M1, ST_M1, 6, 0x0E, 100); drv_linux(&l, iface);
}

/* per-interface observable: hash over the interface's own port calls in order */
static uint64_t iface_obs(int iface) {
    uint64_t h = 7;
    for (uint32_t i = 0; i < W.ntrace; i++) {
        const vf_trec *t = &W.trace[i];
        if (t->iface != iface || t->kind != VF_T_SEND) continue;     /* sleeps carry no reliable interface attribution under preemption */
        uint32_t hd[2] = { t->kind, t->len }; h = vf_hash64(hd, sizeof hd, h);
        if (t->kind == VF_T_SEND) h = vf_hash64(vf_trace_bytes + t->off, t->len, h);
    }
    return h;
}
static uint64_t solo_obs[2][128]; static uint32_t solo_live[2][128]; static uint8_t solo_have[2][128];
static void solo(int iface, int h) {
    if (solo_have[iface][h]) return;
    vf_world_reset(); vf_trace_clear();
    H[iface] = h; run_hist(iface); suffix(iface);
    solo_obs[iface][h] = iface_obs(iface); solo_live[iface][h] = vf_live_blocks(); solo_have[iface][h] = 1;
}

/* symbolisation through nm on our own executable */
static struct sym { uintptr_t a; char name[64]; } *SY; static int nsy;
static int symcmp(const void *x, const void *y) { uintptr_t a = ((const struct sym *)x)->a, b = ((const struct sym *)y)->a; return a < b ? -1 : a > b; }
static void load_syms(const char *exe) {
    char cmd[600]; snprintf(cmd, sizeof cmd, "nm -n '%s' 2>/dev/null", exe);
    FILE *p = popen(cmd, "r"); if (!p) return;
    SY = malloc(sizeof *SY * 20000); char line[400];
    while (fgets(line, sizeof line, p) && nsy < 20000) { unsigned long a; char t; char nm[200]; if (sscanf(line, "%lx %c %199s", &a, &t, nm) == 3 && (t == 't' || t == 'T' || t == 'b' || t == 'B' || t == 'd' || t == 'D')) { SY[nsy].a = a; snprintf(SY[nsy].name, sizeof SY[nsy].name, "%s", nm); nsy++; } }
    pclose(p); qsort(SY, (size_t)nsy, sizeof *SY, symcmp);
}
static const char *symof(uintptr_t a) {
    int lo = 0, hi = nsy; if (!nsy || a < SY[0].a) return "?";
    while (hi - lo > 1) { int m = (lo + hi) / 2; if (SY[m].a <= a) lo = m; else hi = m; }
    return SY[lo].name;
}
static const char *locof(uintptr_t addr) {
    static char b[120]; uintptr_t alo, ahi; vf_arena_range(&alo, &ahi);
    if (addr >= alo && addr < ahi) { snprintf(b, sizeof b, "heap"); return b; }
    snprintf(b, sizeof b, "global:%s", symof(addr)); return b;
}

static int pair_h0, pair_h1, cur_first; static const uint32_t *cur_pre; static int cur_npre;
static void cexw(FILE *f) {
    char n0[300], n1[300]; hist_name(pair_h0, n0, sizeof n0); hist_name(pair_h1, n1, sizeof n1);
    fprintf(f, "\"events\":[%d,%d,%d", pair_h0, pair_h1, cur_first);
    for (int i = 0; i < cur_npre; i++) fprintf(f, ",%u", cur_pre[i]);
    fprintf(f, "],\"thread0_history\":\""); for (char *c = n0; *c; c++) if (*c != '"' && *c != '\\') fputc(*c, f);
    fprintf(f, "\",\"thread1_history\":\""); for (char *c = n1; *c; c++) if (*c != '"' && *c != '\\') fputc(*c, f);
    fprintf(f, "\",\"first_thread\":%d,\"preempt_at_points\":[", cur_first);
    for (int i = 0; i < cur_npre; i++) fprintf(f, "%s%u", i ? "," : "", cur_pre[i]);
    fprintf(f, "]");
}

static uint64_t schedules, max_points; static uint64_t sched_by_bound[5];
static uint32_t seq_live[2];
static void seq_reference(int h0, int h1) {
    for (int order = 0; order < 2; order++) {
        vf_world_reset(); vf_trace_clear();
        H[0] = h0; H[1] = h1;
        if (order == 0) { run_hist(0); run_hist(1); } else { run_hist(1); run_hist(0); }
        suffix(0); suffix(1);
        seq_live[order] = vf_live_blocks();
    }
}

/* one execution under a preemption set; returns number of points */
static uint32_t execute(int h0, int h1, int first, const uint32_t *pre, int npre, int verbose) {
    vf_world_reset(); vf_trace_clear();
    H[0] = h0; H[1] = h1;
    pair_h0 = h0; pair_h1 = h1; cur_first = first; cur_pre = pre; cur_npre = npre; vf_cex_writer = cexw;
    sched_run(body0, body1, first, pre, npre);
    uint32_t np = SS.npoints;
    schedules++; if (np > max_points) max_points = np;
    if (np >= SCHED_MAXPTS) vf_harness_error("too many scheduling points (%u)", np);
    /* where were we preempted (function names) - part of the signature of state-level violations */
    /* (any schedule that preempts inside the unsynchronised interface-state lookup/insert is one class) */
    char where[200] = ""; size_t o = 0; int in_lookup = 0;
    for (int i = 0; i < npre; i++) if (pre[i] < np && !strcmp(symof((uintptr_t)SS.pt_pc[pre[i]]), "lltd_state_for_iface")) in_lookup = 1;
    if (in_lookup) snprintf(where, sizeof where, "lltd_state_for_iface");
    else for (int i = 0; i < npre; i++) if (pre[i] < np) {
        const char *fn = symof((uintptr_t)SS.pt_pc[pre[i]]);
        if (!strstr(where, fn)) o += (size_t)snprintf(where + o, sizeof where - o, "%s%s", o ? "+" : "", fn);
    }
    int nr; const race_rec *rr = sched_races(&nr);
    for (int i = 0; i < nr; i++) {
        const char *fa = symof((uintptr_t)rr[i].pc_a), *fb = symof((uintptr_t)rr[i].pc_b);
        char f1[64], f2[64]; snprintf(f1, sizeof f1, "%s", strcmp(fa, fb) <= 0 ? fa : fb); snprintf(f2, sizeof f2, "%s", strcmp(fa, fb) <= 0 ? fb : fa);
        char sig[240]; snprintf(sig, sizeof sig, "race:%s:%s/%s", locof(rr[i].addr), f1, f2);
        vf_violation(sig, "data race: the two interface threads access the same %s location (%s in %s, %s in %s) and the core has no synchronisation that could order them", locof(rr[i].addr), rr[i].write_a ? "write" : "read", fa, rr[i].write_b ? "write" : "read", fb);
    }
    suffix(0); suffix(1);
    uint64_t o0 = iface_obs(0), o1 = iface_obs(1);
    vf_outcome(o0 ^ (o1 << 1) ^ (uint64_t)nr);
    if (verbose) { printf("  points=%u switches=%u stream=%016llx races=%d obsA=%016llx obsB=%016llx (solo %016llx / %016llx)\n", np, SS.switches, (unsigned long long)SS.stream, nr, (unsigned long long)o0, (unsigned long long)o1, (unsigned long long)solo_obs[0][h0], (unsigned long long)solo_obs[1][h1]); vf_trace_print(stdout); }
    if (o0 != solo_obs[0][h0] || o1 != solo_obs[1][h1]) {
        char sig[300]; snprintf(sig, sizeof sig, "isolation:concurrent-trace-differs-from-solo:preempted-in:%s", where[0] ? where : "none");
        vf_violation(sig, "interface %s: what it transmits (during the concurrent phase and in the observation suffix) differs from what the same history produces alone; preemptions in [%s]", o0 != solo_obs[0][h0] ? (o1 != solo_obs[1][h1] ? "A and B" : "A") : "B", where);
    } else if (vf_live_blocks() != seq_live[0] && vf_live_blocks() != seq_live[1]) {
        /* reference: the same two histories served one after the other by the same responder (either order) - a benign
         * allocation shared by the interfaces is then counted once on both sides */
        char sig[300]; snprintf(sig, sizeof sig, "isolation:allocation-lost-or-leaked:preempted-in:%s", where[0] ? where : "none");
        vf_violation(sig, "%u live allocations after the concurrent run; served one after the other the two histories leave %u (A first) or %u (B first); alone they leave %u + %u", vf_live_blocks(), seq_live[0], seq_live[1], solo_live[0][h0], solo_live[1][h1]);
    }
    if (W.led.bad_free || vf_check_canaries()) vf_violation("isolation:heap-corruption", "heap damaged in a concurrent run");
    return np;
}

static int BOUND;
static void explore(int h0, int h1, int first, uint32_t *pre, int npre) {
    uint32_t np = execute(h0, h1, first, pre, npre, 0);
    sched_by_bound[npre]++;
    if (npre == BOUND) return;
    if (vf_violation_events && vf_now_s() - vf_first_violation_t > VF_GRACE_AFTER_VIOLATION_S) return;
    /* copy the alive map: the recursive executions overwrite SS */
    static uint8_t alive_stack[5][SCHED_MAXPTS]; memcpy(alive_stack[npre], SS.pt_other_alive, np);
    uint32_t from = npre ? pre[npre - 1] + 1 : 0;
    for (uint32_t i = from; i < np; i++) {
        if (!alive_stack[npre][i]) continue;          /* the other thread has already finished: nothing to switch to */
        pre[npre] = i;
        explore(h0, h1, first, pre, npre + 1);
    }
}

int main(int argc, char **argv) {
    vf_parse_args(argc, argv, "C17");
    vf_world_init(A.mtu, A.wifi, (uint8_t)A.fill);
    W.iface[1].flags = 0x0800; W.iface[1].iftype = 71; W.iface[1].speed = 540000; W.iface[1].wifi = !A.wifi;
    build_events(1);
    NH = NEVT + NEVT * NEVT;
    load_syms(argv[0]);
    if (A.replay) {
        FILE *f = fopen(A.replay, "r"); static char buf[1 << 16]; size_t n = f ? fread(buf, 1, sizeof buf - 1, f) : 0; buf[n] = 0; if (f) fclose(f);
        char *q = strstr(buf, "\"events\":["); if (!q) return 2; q += 10;
        int vals[16]; int nv = 0; while (*q && *q != ']' && nv < 16) { vals[nv++] = (int)strtol(q, &q, 10); if (*q == ',') q++; }
        uint32_t pre[8]; int np = 0; for (int i = 3; i < nv; i++) pre[np++] = (uint32_t)vals[i];
        char n0[300], n1[300]; hist_name(vals[0], n0, sizeof n0); hist_name(vals[1], n1, sizeof n1);
        printf("thread A: %s\nthread B: %s\nfirst: %d, preemptions at points:", n0, n1, vals[2]); for (int i = 0; i < np; i++) printf(" %u", pre[i]); printf("\n");
        solo(0, vals[0]); solo(1, vals[1]); seq_reference(vals[0], vals[1]);
        A.verbose = 1; uint64_t st[2];
        for (int round = 0; round < 2; round++) { execute(vals[0], vals[1], vals[2], pre, np, round == 0); st[round] = SS.stream; }
        if (st[0] != st[1]) vf_harness_error("replay diverged: access streams differ");
        printf("replay: two runs, identical access streams\n");
        return vf_nviolations() ? 1 : 0;
    }
    double t0 = vf_now_s();
    /* --a: 1 = pairs of single-event histories, 2 = pairs of histories of length <= 2 ; --depth = preemption bound */
    BOUND = A.depth > 0 ? (int)A.depth : 2;
    int hmax = A.a == 2 ? NH : NEVT;
    uint64_t pairs = 0, idx = 0;
    for (int h0 = 0; h0 < hmax; h0++) for (int h1 = 0; h1 < hmax; h1++) {
        if ((int)(idx++ % (uint64_t)A.nparts) != A.part) continue;
        solo(0, h0); solo(1, h1); seq_reference(h0, h1);
        for (int first = 0; first < 2; first++) { uint32_t pre[8]; explore(h0, h1, first, pre, 0); }
        pairs++;
        if (vf_now_s() - t0 > A.deadline) { R.cap_hit = "deadline"; break; }
        if (vf_violation_events && vf_now_s() - vf_first_violation_t > VF_GRACE_AFTER_VIOLATION_S) { R.cap_hit = "stopped-after-violation"; break; }
    }
    R.evaluations = schedules; R.transitions = schedules; R.states = pairs; R.exhaustive = R.cap_hit == NULL;
    vf_extra("schedules", "%llu history pairs, both start orders; schedules with 0/1/2/3 preemptions: %llu/%llu/%llu/%llu; up to %llu scheduling points per execution", (unsigned long long)pairs,
             (unsigned long long)sched_by_bound[0], (unsigned long long)sched_by_bound[1], (unsigned long long)sched_by_bound[2], (unsigned long long)sched_by_bound[3], (unsigned long long)max_points);
    vf_sample("threads: A handles [Discover(M1)] on interface A, B handles [Discover(M2 via BR)] on interface B (both first frames); every schedule with <= %d preemptions at memory-access granularity; then Discover(M3)+Query+QueryLargeTlv on each interface", BOUND);
    R.wall_s = vf_now_s() - t0;
    vf_write_results();
    return 0;
}
#endif
