/* C14 (mapping engine state machine + timeouts) and C15 (session automaton):
 * exhaustive single-step sweeps (state x input x elapsed) and timed closures (E1 with a
 * time-abstracted key) in product with the reference tables transcribed from the statements. */
#include "../mc/darwin.h"

#include <stdlib.h>
#include <string.h>

static int mode;                       /* 14 or 15 */
static uint64_t evals;
static e1_cfg stepcfg;

/* ------------------------------------------------------------------ C15 */
enum { S_NASCENT, S_PENDING, S_COMPLETE, S_TEMP, S_N };
static const char *SNAME[] = {"Nascent", "Pending", "Complete", "Temporary"};
static const char *EVNAME[] = {"discover_conflicting", "reset", "discover_noack", "discover_acking", "discover_noack_chgd_xid", "discover_acking_chgd_xid", "topo_reset", "hello"};
static int delta15(int s, int e) {
    if (e == 1) return S_NASCENT;
    switch (s) {
        case S_NASCENT: return e == 2 ? S_PENDING : e == 3 ? S_COMPLETE : e == 0 ? S_TEMP : s;
        case S_PENDING: return (e == 3 || e == 5) ? S_COMPLETE : s;
        case S_COMPLETE: return e == 4 ? S_PENDING : s;
        case S_TEMP: return (e == 7 || e == 6) ? S_NASCENT : s;
    }
    return s;
}
static const int ENTRY15[S_N] = {-1, 2, 3, 0};       /* event that enters the state from Nascent */
static int id15[S_N];                                /* concrete current_state value of each abstract state */
static automata *A15;
static int abs15(int concrete) { for (int i = 0; i < S_N; i++) if (id15[i] == concrete) return i; return -1; }

static void learn_ids15(void) {
    for (int s = 0; s < S_N; s++) {
        vf_world_reset();
        automata *a = init_automata_session();
        if (!a) vf_harness_error("init_automata_session failed");
        if (ENTRY15[s] >= 0) switch_state_session(a, ENTRY15[s], "enter");
        id15[s] = a->current_state;
    }
    for (int i = 0; i < S_N; i++) for (int j = 0; j < i; j++) if (id15[i] == id15[j]) {
        char sig[96]; snprintf(sig, sizeof sig, "session:entry:%s", SNAME[i]);
        static int p[1]; p[0] = 0; e1_manual_path(&stepcfg, p, 0);
        vf_violation(sig, "from Nascent, %s does not lead to a state of its own (%s and %s coincide)", EVNAME[ENTRY15[i] < 0 ? 1 : ENTRY15[i]], SNAME[i], SNAME[j]);
    }
}

/* step code: (((state*NIN + input) * NEL + elapsed class) * NORG + clock origin)
 * elapsed classes: 0, t-1, t, t+1, 10t, 31 s, and long silences around the 15/16/32-bit boundaries of a seconds counter;
 * clock origins (reading of the seconds clock when the state was entered): ordinary, 0, and readings whose low 16 / 31 / 32 bits are all ones */
#define NEL 12
#define NORG 7      /* index 6: the automaton under test is the SECOND one the process creates, 5 s after a first one (another interface) */
static const uint64_t ORG_S[NORG] = {1000ull, 0ull, 65535ull, 196607ull, 2147483647ull, 4294967295ull, 1000ull};
static long long elapsed_of(int idx, long t) {
    switch (idx) { case 0: return 0; case 1: return t - 1; case 2: return t; case 3: return t + 1; case 4: return 10 * t; case 5: return 31;
                   case 6: return 32767; case 7: return 32768; case 8: return 65535; case 9: return 65536; case 10: return 65536 + t; default: return 4294967297ll; }
}
static void set_origin(int oi) { extern uint64_t vf_clock_origin; vf_clock_origin = ORG_S[oi] * 1000ull; }
static void step15_name(int code, char *buf, size_t cap) {
    int oi = code % NORG, ei = (code / NORG) % NEL, e = (code / NORG / NEL) % 8, s = code / NORG / NEL / 8;
    snprintf(buf, cap, "session step: state %s entered at clock %llu s, elapsed class %d, event %s", SNAME[s], (unsigned long long)ORG_S[oi], ei, EVNAME[e]);
}
static void step15(int code) {
    int oi = code % NORG, ei = (code / NORG) % NEL, e = (code / NORG / NEL) % 8, s = code / NORG / NEL / 8;
    set_origin(oi);
    vf_world_reset();
    if (oi == 6) { if (!init_automata_session()) vf_harness_error("init_automata_session failed"); W.now_ms += 5000; }
    automata *a = init_automata_session();
    if (ENTRY15[s] >= 0) switch_state_session(a, ENTRY15[s], "enter");
    long t = a->states_table[a->current_state].timeout;
    if (t <= 0 && s != S_NASCENT) {
        char sig[96]; snprintf(sig, sizeof sig, "session:no-inactivity-timeout:%s", SNAME[s]);
        vf_violation(sig, "state %s has timeout %ld: it can never expire back to Nascent", SNAME[s], t);
        return;
    }
    long long el = elapsed_of(ei, t);
    if (el < 0) return;
    W.now_ms += (uint64_t)el * 1000;
    switch_state_session(a, e, "step");
    evals++;
    int got = abs15(a->current_state);
    int timed_out = (t > 0 && el > t);
    int exp1 = timed_out ? S_NASCENT : delta15(s, e), exp2 = timed_out ? delta15(S_NASCENT, e) : exp1;
    vf_outcome(vf_hash64(&got, sizeof got, (uint64_t)code));
    if (A.verbose) printf("    %s (entered at clock %llu s) --%s (elapsed %lld s, timeout %ld s)--> %s\n", SNAME[s], (unsigned long long)ORG_S[oi], EVNAME[e], el, t, got < 0 ? "?" : SNAME[got]);
    if (got != exp1 && got != exp2) {
        char sig[120]; snprintf(sig, sizeof sig, "session:(%s,%s,%s)", SNAME[s], EVNAME[e], timed_out ? "expired" : "in-time");
        vf_violation(sig, "session automaton in %s (entered at clock reading %llu s), %lld s after its last event (timeout %ld s), event %s: goes to %s, the life-cycle demands %s%s%s", SNAME[s], (unsigned long long)ORG_S[oi], el, t, EVNAME[e],
                     got < 0 ? "an unknown state" : SNAME[got], SNAME[exp1], exp2 != exp1 ? " or " : "", exp2 != exp1 ? SNAME[exp2] : "");
    }
}

/* closure: events 0..7, advance 1/2/20 s */
static struct { uint8_t s; uint8_t age; } M15;
static const int ADV15[3] = {1, 2, 20};
static void c15_name(int ev, char *buf, size_t cap) { if (ev < 8) snprintf(buf, cap, "event %s", EVNAME[ev]); else snprintf(buf, cap, "advance %d s", ADV15[ev - 8]); }
static void c15_root(void) { A15 = init_automata_session(); M15.s = S_NASCENT; M15.age = 0; }
static void c15_apply(int ev) {
    if (ev >= 8) { W.now_ms += (uint64_t)ADV15[ev - 8] * 1000; int a = M15.age + ADV15[ev - 8]; M15.age = (uint8_t)(a > 21 ? 21 : a); return; }
    long t = A15->states_table[A15->current_state].timeout;
    int timed_out = t > 0 && M15.age > t;
    int s = M15.s;
    switch_state_session(A15, ev, "closure");
    int got = abs15(A15->current_state);
    int exp1 = timed_out ? S_NASCENT : delta15(s, ev), exp2 = timed_out ? delta15(S_NASCENT, ev) : exp1;
    if (got != exp1 && got != exp2) {
        char sig[120]; snprintf(sig, sizeof sig, "session:(%s,%s,%s)", SNAME[s], EVNAME[ev], timed_out ? "expired" : "in-time");
        vf_violation(sig, "session automaton in %s (reached by a longer history), age %u s, event %s: goes to %s, demanded %s", SNAME[s], M15.age, EVNAME[ev], got < 0 ? "an unknown state" : SNAME[got], SNAME[exp1]);
        got = exp1;
    }
    M15.s = (uint8_t)got; M15.age = 0;
}
static size_t c15_key(uint8_t *out, size_t cap) {
    (void)cap;
    uint64_t age = W.now_ms / 1000 - A15->last_ts; if (age > 21) age = 21;
    out[0] = A15->current_state; out[1] = (uint8_t)age; out[2] = M15.s; out[3] = M15.age;
    return 4;
}
static uint64_t c15_obs(void) { return 0x1000u + A15->current_state; }

/* ------------------------------------------------------------------ C14 */
enum { Q_IDLE, Q_CMD, Q_EMIT, Q_N };
static const char *QNAME[] = {"Quiescent", "Command", "Emit"};
static int id14[Q_N];
static int abs14(int c) { for (int i = 0; i < Q_N; i++) if (id14[i] == c) return i; return -1; }
static int delta14(int s, int in) {
    switch (s) {
        case Q_IDLE: return in == 0x00 ? Q_CMD : s;
        case Q_CMD: return in == 0x02 ? Q_EMIT : (in == 0x08 || in == -1) ? Q_IDLE : s;
        case Q_EMIT: return in == -3 ? Q_CMD : (in == 0x08 || in == -1) ? Q_IDLE : s;
    }
    return s;
}
static const char *inlabel(int in) {
    static char b[24];
    if (in == 0x00 || in == 0x02 || in == 0x08 || in == -1 || in == -2 || in == -3) snprintf(b, sizeof b, "input=%d", in); else snprintf(b, sizeof b, "input=other");
    return b;
}
static automata *enter14(int s) {
    automata *a = init_automata_mapping();
    if (!a) vf_harness_error("init_automata_mapping failed");
    if (s >= Q_CMD) switch_state_mapping(a, 0x00, "enter");
    if (s == Q_EMIT) switch_state_mapping(a, 0x02, "enter");
    return a;
}
static void learn_ids14(void) {
    for (int s = 0; s < Q_N; s++) { vf_world_reset(); id14[s] = enter14(s)->current_state; }
    for (int i = 0; i < Q_N; i++) for (int j = 0; j < i; j++) if (id14[i] == id14[j]) {
        char sig[96]; snprintf(sig, sizeof sig, "mapping:entry:%s", QNAME[i]);
        static int p[1]; e1_manual_path(&stepcfg, p, 0);
        vf_violation(sig, "the legal path into %s (Discover%s) ends in the same state as %s", QNAME[i], i == Q_EMIT ? ", Emit" : "", QNAME[j]);
    }
}
/* step code: (state * 384 + (input+128)) * 8 + elapsed_idx ; elapsed_idx 0:0 1:t-1 2:t 3:t+1 4:10t 5:31 */
static void step14_name(int code, char *buf, size_t cap) {
    int oi = code % NORG, ei = (code / NORG) % NEL, in = (code / NORG / NEL) % 384 - 128, s = code / NORG / NEL / 384;
    snprintf(buf, cap, "mapping step: state %s entered at clock %llu s, elapsed class %d, input %d", QNAME[s], (unsigned long long)ORG_S[oi], ei, in);
}
static void step14(int code) {
    int oi = code % NORG, ei = (code / NORG) % NEL, in = (code / NORG / NEL) % 384 - 128, s = code / NORG / NEL / 384;
    set_origin(oi);
    vf_world_reset();
    if (oi == 6) { if (!init_automata_mapping()) vf_harness_error("init_automata_mapping failed"); W.now_ms += 5000; }
    automata *a = enter14(s);
    long t = a->states_table[a->current_state].timeout;
    if (s != Q_IDLE && (t < 1 || t > 30)) {
        char sig[96]; snprintf(sig, sizeof sig, "mapping:timeout-out-of-range:%s", QNAME[s]);
        vf_violation(sig, "state %s has timeout %ld s; active states need a non-zero timeout of at most 30 s", QNAME[s], t);
        return;
    }
    long long el = elapsed_of(ei, t);
    if (el < 0 || (s == Q_IDLE && ei >= 1 && ei <= 4)) return;
    W.now_ms += (uint64_t)el * 1000;
    switch_state_mapping(a, in, "step");
    evals++;
    int got = abs14(a->current_state);
    int timed_out = (s != Q_IDLE && el > t);
    int exp1 = timed_out ? Q_IDLE : delta14(s, in), exp2 = (timed_out && in == 0x00) ? Q_CMD : exp1;
    vf_outcome(vf_hash64(&got, sizeof got, (uint64_t)(code / NORG / NEL)));
    if (A.verbose) printf("    %s (entered at clock %llu s) --input %d (elapsed %lld s, timeout %ld s)--> %s\n", QNAME[s], (unsigned long long)ORG_S[oi], in, el, t, got < 0 ? "?" : QNAME[got]);
    if (got != exp1 && got != exp2) {
        char sig[120]; snprintf(sig, sizeof sig, "mapping:(%s,%s,%s)", QNAME[s], inlabel(in), timed_out ? "expired" : "in-time");
        vf_violation(sig, "mapping engine in %s (entered at clock reading %llu s), %lld s after its last input (timeout %ld s), input %d: goes to %s, the state machine demands %s", QNAME[s], (unsigned long long)ORG_S[oi], el, t, in, got < 0 ? "an unknown state" : QNAME[got], QNAME[exp1]);
    }
}

/* closure with the Darwin glue (mapping-related lines) and the periodic tick */
static dw_iface D, D2;          /* D2: the engine of a second interface; it never receives a frame, only the periodic tick */
static struct { uint8_t s; uint8_t in_age; uint8_t frame_age; uint8_t had_frame; } M14;   /* ages in s, capped */
static const int FR14[] = {0x00, 0x02, 0x08, 0x04, 0x06, 0x0B, 0x09, 0x01, 0x05, 0x0D, 0xFF, 0x100};   /* 0x100: Discover of the same mapper with a second generation (a second table key) */
static const int IN14[] = {-1, -2, -3};
static const int ADV14[] = {1, 4, 5, 6, 29, 30, 31, 300};
#define NFR 12
#define NIN 3
#define NADV 8
static void c14_name(int ev, char *buf, size_t cap) {
    if (ev < NFR) snprintf(buf, cap, "frame opcode 0x%02x%s", FR14[ev] & 0xFF, FR14[ev] & 0x100 ? " (generation 0x1235)" : "");
    else if (ev < NFR + NIN) snprintf(buf, cap, "internal input %d", IN14[ev - NFR]);
    else if (ev < NFR + NIN + NADV) snprintf(buf, cap, "advance %d s", ADV14[ev - NFR - NIN]);
    else if (ev == NFR + NIN + NADV) snprintf(buf, cap, "tick");
    else snprintf(buf, cap, "tick of the other interface's engine");
}
static void c14_root(void) { dw_init(&D, 0); D.mapping_only = 1; dw_init(&D2, 1); D2.mapping_only = 1; memset(&M14, 0, sizeof M14); M14.s = Q_IDLE; }
static void check_step14(int in, const char *what) {
    automata *a = D.mappingAutomata;
    int got = abs14(a->current_state);
    long t = 0; int s = M14.s;
    t = s == Q_CMD ? a->states_table[id14[Q_CMD]].timeout : s == Q_EMIT ? a->states_table[id14[Q_EMIT]].timeout : 0;
    int timed_out = (s != Q_IDLE && M14.in_age > t);
    int exp1 = timed_out ? Q_IDLE : delta14(s, in), exp2 = (timed_out && in == 0x00) ? Q_CMD : exp1;
    if (got != exp1 && got != exp2) {
        char sig[120]; snprintf(sig, sizeof sig, "mapping:(%s,%s,%s)", QNAME[s], inlabel(in), timed_out ? "expired" : "in-time");
        vf_violation(sig, "%s: mapping engine in %s, %u s after its last input, input %d: goes to %s, demanded %s", what, QNAME[s], M14.in_age, in, got < 0 ? "an unknown state" : QNAME[got], QNAME[exp1]);
        got = exp1;
    }
    M14.s = (uint8_t)got; M14.in_age = 0;
}
static int c14_enabled(int ev) {
    if (A.a == 0) { if (ev < NFR && FR14[ev] == 0x100) return 0; }          /* one table key: the full alphabet */
    else {                                                                  /* two table keys: Discover of either generation, Emit, Reset, 4/29/31 s, tick */
        if (ev < NFR) { int f = FR14[ev]; if (f != 0x00 && f != 0x100 && f != 0x02 && f != 0x08) return 0; }
        else if (ev < NFR + NIN) return 0;
        else if (ev < NFR + NIN + NADV) { int a = ADV14[ev - NFR - NIN]; if (a != 4 && a != 29 && a != 31) return 0; }
        else if (ev == NFR + NIN + NADV + 1) return 0;
    }
    if (ev < NFR && FR14[ev] == 0x09) return ((mapping_state *)D.mappingAutomata->extra)->ctc < 3;   /* stated bound on the charge counter */
    return 1;
}
static void c14_apply(int ev) {
    if (ev < NFR) {
        static uint8_t buf[1600]; memset(buf, 0, sizeof buf);
        fb_base(buf, W.iface[0].mac, vf_station[ST_M1], 0, (uint8_t)FR14[ev], W.iface[0].mac, vf_station[ST_M1], 1);
        buf[32] = 0x12; buf[33] = FR14[ev] & 0x100 ? 0x35 : 0x34;
        dw_frame(&D, buf, 64);
        check_step14(FR14[ev] & 0xFF, "frame");
        M14.frame_age = 0; M14.had_frame = 1;
        /* the tick at the end of the frame path runs with 0 s of silence: nothing to demand */
    } else if (ev < NFR + NIN) {
        switch_state_mapping(D.mappingAutomata, IN14[ev - NFR], "internal");
        check_step14(IN14[ev - NFR], "internal input");
    } else if (ev < NFR + NIN + NADV) {
        int a = ADV14[ev - NFR - NIN];
        W.now_ms += (uint64_t)a * 1000;
        M14.in_age = (uint8_t)(M14.in_age + a > 40 ? 40 : M14.in_age + a);
        M14.frame_age = (uint8_t)(M14.frame_age + a > 40 ? 40 : M14.frame_age + a);
    } else if (ev == NFR + NIN + NADV + 1) {
        dw_tick(&D2);                    /* daemons tick every interface; another engine's tick must not matter here */
    } else {
        dw_tick(&D);
        mapping_state *ms = D.mappingAutomata->extra;
        if (M14.had_frame && M14.frame_age >= 30) {
            int got = abs14(D.mappingAutomata->current_state);
            int live = 0; for (int i = 0; i < SESSION_TABLE_MAX_ENTRIES; i++) live += D.sessionTable->entries[i].valid != 0;
            if (got != Q_IDLE || ms->ctc != 0 || !session_table_is_empty(D.sessionTable) || D.sessionTable->count != 0 || live)
                vf_violation("mapping:inactivity-tick", "tick %u s after the last frame: mapping state %s, charge counter %u, session table count %u, %d slot(s) still hold a session - the session must be ended, the counter cleared and the table emptied", M14.frame_age, got < 0 ? "?" : QNAME[got], ms->ctc, D.sessionTable->count, live);
            M14.s = Q_IDLE; M14.in_age = 0; M14.had_frame = 0;      /* the tick's own "-1" input restarts the input clock */
        } else {
            /* before the deadline the tick may or may not have fired (second granularity): follow the implementation */
            int got = abs14(D.mappingAutomata->current_state);
            if (got != M14.s) { if (got == Q_IDLE) { M14.s = Q_IDLE; M14.in_age = 0; M14.had_frame = 0; } else vf_violation("mapping:tick-changes-state", "a tick moved the mapping engine from %s to %s", QNAME[M14.s], got < 0 ? "?" : QNAME[got]); }
        }
    }
}
static uint8_t rel(uint64_t ts, uint64_t now, int lo, int hi) {    /* deadline relative to now, clamped; 0 sentinel -> 0xFF */
    if (ts == 0) return 0xFF;
    int64_t d = (int64_t)ts - (int64_t)now; if (d < lo) d = lo; if (d > hi) d = hi;
    return (uint8_t)(d - lo);
}
static size_t c14_key(uint8_t *out, size_t cap) {
    (void)cap; size_t n = 0; uint64_t now = W.now_ms / 1000;
    automata *a = D.mappingAutomata; mapping_state *ms = a->extra;
    uint64_t age = now - a->last_ts; if (age > 32) age = 32;
    out[n++] = a->current_state; out[n++] = (uint8_t)age; out[n++] = ms->ctc;
    out[n++] = rel(ms->charge_timeout_ts, now, -1, 2); out[n++] = rel(ms->inactive_timeout_ts, now, -1, 31);
    session_table *t = D.sessionTable;
    out[n++] = t->count; out[n++] = t->all_complete;
    for (int i = 0; i < SESSION_TABLE_MAX_ENTRIES; i++) {
        session_entry *e = &t->entries[i];
        out[n++] = e->valid;
        if (e->valid) { uint64_t ea = now - e->last_activity_ts; if (ea > 62) ea = 62; out[n++] = (uint8_t)ea; out[n++] = e->complete; out[n++] = (uint8_t)e->seq_number; out[n++] = e->state; }
    }
    memcpy(out + n, &M14, sizeof M14); n += sizeof M14;
    return n;
}
static uint64_t c14_obs(void) { mapping_state *ms = D.mappingAutomata->extra; return 0x2000u + D.mappingAutomata->current_state * 7u + ms->ctc * 31u + D.sessionTable->count * 131u; }

/* ------------------------------------------------------------------ main */
static void step_name(int code, char *buf, size_t cap) { if (mode == 15) step15_name(code, buf, cap); else step14_name(code, buf, cap); }
static void step_apply(int code) { if (mode == 15) step15(code); else step14(code); }

int main(int argc, char **argv) {
    const char *prop = "C14";
    for (int i = 1; i + 1 < argc; i++) if (!strcmp(argv[i], "--mode") && !strncmp(argv[i + 1], "c15", 3)) prop = "C15";
    vf_parse_args(argc, argv, prop);
    mode = !strncmp(A.mode, "c15", 3) ? 15 : 14;
    int closure = strstr(A.mode, "closure") != NULL;
    vf_world_init(1500, 0, (uint8_t)A.fill);
    stepcfg = (e1_cfg){ .nev = 1 << 20, .ev_name = step_name, .apply = step_apply };
    if (mode == 15) learn_ids15(); else learn_ids14();
    e1_cfg ccfg;
    if (mode == 15) ccfg = (e1_cfg){ .nev = 11, .ev_name = c15_name, .apply = c15_apply, .root_setup = c15_root, .model = &M15, .model_size = sizeof M15,
                                     .extra_key = c15_key, .no_heap_key = 1, .no_model_key = 1, .obs_hash = c15_obs, .deadline_s = A.deadline, .prune_on_violation = 1 };
    else ccfg = (e1_cfg){ .nev = NFR + NIN + NADV + 2, .ev_name = c14_name, .apply = c14_apply, .enabled = c14_enabled, .root_setup = c14_root, .model = &M14, .model_size = sizeof M14,
                          .extra_key = c14_key, .no_heap_key = 1, .no_model_key = 1, .obs_hash = c14_obs, .deadline_s = A.deadline, .prune_on_violation = 1,
                          .max_depth = A.depth > 0 ? (int)A.depth : 0 };
    if (A.replay) { A.verbose = 1; return e1_replay_file(closure ? &ccfg : &stepcfg, A.replay); }
    double t0 = vf_now_s();
    if (!closure) {
        int n = (mode == 15 ? S_N * 8 : Q_N * 384) * NEL * NORG;
        for (int code = 0; code < n; code++) {
            static int p[1]; p[0] = code; e1_manual_path(&stepcfg, p, 1);
            step_apply(code);
        }
        { extern uint64_t vf_clock_origin; vf_clock_origin = 1000000ull; }
        R.evaluations = evals; R.transitions = evals; R.states = mode == 15 ? S_N : Q_N; R.exhaustive = 1;
        if (mode == 15) vf_sample("4 states x events 0..7 x elapsed {0,t-1,t,t+1,10t,31,32767,32768,65535,65536,65536+t,2^32+1 s} x entry clock {1000,0,65535,196607,2^31-1,2^32-1 s, and as the second automaton of the process}: e.g. (Complete, reset, 0 s) must go to Nascent");
        else vf_sample("3 states x inputs -128..255 x the same 12 elapsed classes x 6 entry clocks: e.g. (Command, input 2, 0 s) must go to Emit; (Command, input 6, 0 s) must stay");
    } else {
        /* two clock origins: the time-abstracted key is only sound if behaviour is translation invariant */
        e1_stats st[4];
        static const uint64_t ORG[4] = {1000000ull, 3000500ull, 4294965000ull /* the millisecond clock passes 2^32 after 2.3 s */, 0ull /* the clock has just started: time-stamp 0 is a legal value, not "unset" */};
        for (int o = 0; o < 4; o++) {
            extern uint64_t vf_clock_origin; vf_clock_origin = ORG[o];
            e1_run(&ccfg, &st[o]);
        }
        for (int o = 1; o < 4; o++)
            if (st[0].fixpoint && st[o].fixpoint && (st[0].states != st[o].states || st[0].transitions != st[o].transitions || st[0].out_hash != st[o].out_hash))
                vf_violation("time-translation-variance", "the exploration differs between clock origins %llu ms and %llu ms (%llu/%llu states): behaviour depends on absolute time", (unsigned long long)ORG[0], (unsigned long long)ORG[o], (unsigned long long)st[0].states, (unsigned long long)st[o].states);
        R.states = st[0].states + st[1].states + st[2].states + st[3].states; R.transitions = st[0].transitions + st[1].transitions + st[2].transitions + st[3].transitions; R.evaluations = R.transitions;
        R.max_depth = st[0].max_depth; R.fixpoint = st[0].fixpoint && st[1].fixpoint && st[2].fixpoint && st[3].fixpoint; R.exhaustive = R.fixpoint; R.cap_hit = st[0].cap;
        vf_extra("origins", "explored from clock origins 1000000 ms, 3000500 ms, 4294965000 ms (2^32 ms passed inside every history) and 0 ms: %llu states each, identical observation streams", (unsigned long long)st[0].states);
    }
    R.wall_s = vf_now_s() - t0;
    vf_write_results();
    return 0;
}
