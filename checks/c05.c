/* C05 - one mapper at a time; Reset releases it; foreign services cannot seize it.
 * mode "closure": E1 to fixpoint over {Discover,Reset,Hello,Probe,Emit,Query,QueryLargeTlv}
 *                 x {M1,M2,M3} x ToS {0,1,2,3,0xFF}, product with the reference arbiter.
 * mode "sweep"  : all 256x256 (ToS,opcode) single steps from M2 in the states
 *                 "no mapper" (a=0) and "M1 active" (a=1), each followed by the probe
 *                 Discovers from M1 and M2 on restored copies. */
#include "../mc/oracles.h"

#include <string.h>

static struct { arb arb; } M;

static pev EV[512]; static int NEV;

static int is_disc_tos(uint8_t tos) { return tos == 0 || tos == 1; }
static int arbiter_step(const pev *e) { return arb_step(&M.arb, e); }

static int count_sends(void) { int n = 0; for (uint32_t i = 0; i < W.ntrace; i++) if (W.trace[i].kind == VF_T_SEND) n++; return n; }
static int first_send_opcode(void) {
    for (uint32_t i = 0; i < W.ntrace; i++) if (W.trace[i].kind == VF_T_SEND) return W.trace[i].len >= 18 ? vf_trace_bytes[W.trace[i].off + 17] : -1;
    return -1;
}

static void oracle(const pev *e, int expect) {
    int sends = count_sends();
    char nm[160]; pev_name(e, nm, sizeof nm);
    if (!is_disc_tos(e->tos)) {
        if (sends) vf_violation("foreign-service-answered", "%s (ToS %u is not a discovery service) made the responder transmit %d frame(s)", nm, e->tos, sends);
        return;
    }
    if (e->opcode != 0x00) return;
    if (expect == 1) {
        if (sends != 1 || first_send_opcode() != 0x01)
            vf_violation("accepted-discover-not-answered", "%s must be accepted (arbiter) but %d frame(s) sent, first opcode %d", nm, sends, first_send_opcode());
    } else if (expect == 0) {
        if (sends != 0) vf_violation("stranger-discover-answered", "%s comes from a station other than the active mapper but was answered (%d frames)", nm, sends);
    }
}

static int BG0 = -1;            /* --b 1: the responder serves three interfaces; events BG0, BG0+1 = a neighbour's Hello heard on interface 1 / 2 */
static void apply(int ev) {
    const pev *e = &EV[ev];
    if (BG0 >= 0 && ev >= BG0) { drv_linux(e, ev - BG0 + 1); for (uint32_t i = 0; i < W.ntrace; i++) if (W.trace[i].kind == VF_T_SEND) vf_violation("background-interface-answered", "a neighbour's Hello heard on interface %d made the responder transmit", ev - BG0 + 1); return; }
    arb before = M.arb;
    int expect = arbiter_step(e);
    drv_linux(e, 0);
    if (!is_disc_tos(e->tos)) M.arb = before;
    oracle(e, expect);
}
static void ev_name(int ev, char *buf, size_t cap) { if (BG0 >= 0 && ev >= BG0) { snprintf(buf, cap, "on interface %d: ", ev - BG0 + 1); size_t l = strlen(buf); buf += l; cap -= l; } pev_name(&EV[ev], buf, cap); }
static void root_setup(void) { M.arb.v = ARB_NONE; }

static void build_alphabet(void) {
    static const uint8_t toss[] = {0, 1, 2, 3, 0xFF};
    static const int sts[] = {ST_M1, ST_M2, ST_M3};
    NEV = 0;
    for (unsigned t = 0; t < sizeof toss; t++) for (unsigned s = 0; s < 3; s++) {
        uint8_t tos = toss[t]; int st = sts[s];
        EV[NEV++] = ev_discover(tos, st, st, 0x1234, 1);
        EV[NEV++] = ev_reset(tos, st);
        EV[NEV++] = ev_hello(tos, st, 0x3412);
        EV[NEV++] = ev_probe(0x04, tos, st, st, ST_OWN, ST_OWN);
        EV[NEV++] = ev_emit1(tos, st, st, 7, 1, 0, ST_S0, ST_PEER);
        EV[NEV++] = ev_query(tos, st, st, 2);
        EV[NEV++] = ev_qlt(tos, st, st, 3, 0x0E, 0);
    }
    /* bridged Discover: the arbiter keys on the real source */
    EV[NEV++] = ev_discover(0, ST_M1, ST_BR, 0x1234, 1);
    EV[NEV++] = ev_discover(1, ST_M2, ST_BR, 0x1234, 1);
    /* bridged commands (real source != Ethernet source): the mapper's identity is its real source */
    EV[NEV++] = ev_qlt(0, ST_M1, ST_BR, 3, 0x0E, 0);
    EV[NEV++] = ev_qlt(1, ST_M2, ST_BR, 4, 0x11, 0);
    EV[NEV++] = ev_query(0, ST_M1, ST_BR, 2);
    EV[NEV++] = ev_emit1(0, ST_M2, ST_BR, 7, 1, 0, ST_S0, ST_PEER);
    EV[NEV++] = ev_discover(0, ST_BR, ST_BR, 0x1234, 1);      /* the bridge itself as a station */
}

/* ------------------------------------------------------------- sweep mode */
/* event encoding: 0..65535 = (tos<<8|opcode) raw frame from M2; 65536/65537 probe Discover from M1/M2; 65538 setup Discover M1 */
static pev sweep_ev(int code) {
    if (code == 65536 || code == 65538) return ev_discover(0, ST_M1, ST_M1, 0x1111, 1);
    if (code == 65537) return ev_discover(0, ST_M2, ST_M2, 0x2222, 1);
    return ev_raw((uint8_t)(code >> 8), (uint8_t)code, ST_M2, ST_M2);
}
static void sweep_name(int ev, char *buf, size_t cap) { pev e = sweep_ev(ev); pev_name(&e, buf, cap); }
static void sweep_apply(int ev) {
    pev e = sweep_ev(ev);
    arb before = M.arb;
    int expect = arbiter_step(&e);
    drv_linux(&e, 0);
    if (!is_disc_tos(e.tos)) M.arb = before;
    oracle(&e, expect);
}
static e1_cfg sweep_cfg = { .nev = 65539, .ev_name = sweep_name, .apply = sweep_apply, .root_setup = root_setup, .model = &M, .model_size = sizeof M };

/* ------------------------------------------------------------- address-neighbour stage (part of mode "sweep")
 * The mapper's identity is a 48-bit address: for 3 base addresses X and every Y = X with one bit flipped (48), plus
 * twins (first two octets changed), both services, direct: Discover(X) accepted; Discover(Y) refused; Discover(X)
 * accepted again; Reset; Discover(Y) accepted.  pseudo path: [base * 2 + tos, neighbour index (0..47 bit, 48.. twins)] */
static int an_stage[2], an_n; static uint64_t an_cases;
static void an_case(int bt, int nb) {
    static const uint8_t base[3][6] = {{0x00, 0x15, 0x5d, 0xaa, 0xbb, 0x01}, {0x00, 0x50, 0xf2, 0xaa, 0xbb, 0x01}, {0xfe, 0xff, 0xff, 0xff, 0xff, 0xfe}};
    uint8_t keep1[6], keep2[6]; memcpy(keep1, vf_station[ST_M1], 6); memcpy(keep2, vf_station[ST_M2], 6);
    uint8_t X[6], Y[6]; memcpy(X, base[bt / 2], 6); memcpy(Y, X, 6);
    if (nb < 48) Y[nb / 8] ^= (uint8_t)(1u << (nb % 8)); else { Y[0] ^= (uint8_t)(0x02 << (nb - 48)); Y[1] ^= 0x40; }
    memcpy(vf_station[ST_M1], X, 6); memcpy(vf_station[ST_M2], Y, 6);
    uint8_t tos = (uint8_t)(bt & 1);
    vf_world_reset(); root_setup();
    pev seq[5] = { ev_discover(tos, ST_M1, ST_M1, 0x1111, 1), ev_discover(tos, ST_M2, ST_M2, 0x2222, 1), ev_discover(tos, ST_M1, ST_M1, 0x1111, 2), ev_reset(tos, ST_M1), ev_discover(tos, ST_M2, ST_M2, 0x2222, 3) };
    for (int i = 0; i < 5; i++) {
        vf_trace_clear();
        int expect = arbiter_step(&seq[i]);
        drv_linux(&seq[i], 0);
        if (A.verbose) { char nm[160]; pev_name(&seq[i], nm, sizeof nm); printf("    M1=%02x:%02x:%02x:%02x:%02x:%02x M2=%02x:%02x:%02x:%02x:%02x:%02x  %s -> %d frame(s)\n", X[0], X[1], X[2], X[3], X[4], X[5], Y[0], Y[1], Y[2], Y[3], Y[4], Y[5], nm, count_sends()); }
        oracle(&seq[i], expect);
    }
    an_cases++;
    memcpy(vf_station[ST_M1], keep1, 6); memcpy(vf_station[ST_M2], keep2, 6);
}
static void an_name(int ev, char *b, size_t cap) { snprintf(b, cap, "arg(%d)", ev); }
static void ls_case(int kind, int reps);
static void sq_case(int kind, int seq);
static void an_apply(int ev) { an_stage[an_n++] = ev; if (an_n == 2) { an_n = 0; if (an_stage[0] >= 2000) sq_case(an_stage[0] - 2000, an_stage[1]); else if (an_stage[0] >= 1000) ls_case(an_stage[0] - 1000, an_stage[1]); else an_case(an_stage[0], an_stage[1]); } }
static void an_root(void) { an_n = 0; M.arb.v = ARB_NONE; }
static e1_cfg ancfg = { .nev = 1 << 16, .ev_name = an_name, .apply = an_apply, .root_setup = an_root };
static void run_neighbours(void) {
    static int p[2];
    for (int bt = 0; bt < 6; bt++) for (int nb = 0; nb < 51; nb++) { p[0] = bt; p[1] = nb; e1_manual_path(&ancfg, p, 2); an_case(bt, nb); vf_outcome(vf_trace_hash() ^ (uint64_t)nb); }
}

/* ------------------------------------------------------------- long sessions (part of mode "addr")
 * One mapper, one kind of request repeated up to 65537 times (every counter a responder might keep per request wraps on
 * the way); after 254..257, 510..513 and 65534..65537 repetitions the arbiter is probed on a copy of the state: a Discover
 * of another station is refused, the mapper's own Discover is answered.  pseudo path: [1000 + request kind, repetitions] */
static void ls_case(int kind, int reps) {
    vf_world_reset(); root_setup();
    pev d = ev_discover(0, ST_M1, ST_M1, 0x1111, 1); vf_trace_clear(); { int ex = arbiter_step(&d); drv_linux(&d, 0); oracle(&d, ex); }
    for (int i = 1; i <= reps; i++) {
        uint16_t seq = (uint16_t)((i & 0xFFFF) ? (i & 0xFFFF) : 1);
        pev e = kind == 0 ? ev_query(0, ST_M1, ST_M1, seq) : kind == 1 ? ev_qlt(0, ST_M1, ST_M1, seq, 0x0E, 0) : kind == 2 ? ev_emit1(0, ST_M1, ST_M1, seq, 1, 0, ST_S0, ST_PEER)
              : kind == 3 ? ev_probe(0x04, 0, ST_S0, ST_S0, ST_OWN, ST_OWN) : kind == 4 ? ev_hello(0, ST_PEER, 0x3412) : ev_discover(0, ST_M1, ST_M1, 0x1111, seq);
        vf_trace_clear(); arbiter_step(&e); drv_linux(&e, 0);
    }
    pev s1 = ev_discover(0, ST_M2, ST_M2, 0x2222, 7), s2 = ev_discover(0, ST_M1, ST_M1, 0x1111, 9);
    vf_trace_clear(); { int ex = arbiter_step(&s1); drv_linux(&s1, 0); oracle(&s1, ex); }
    vf_trace_clear(); { int ex = arbiter_step(&s2); drv_linux(&s2, 0); oracle(&s2, ex); }
    an_cases++;
    if (A.verbose) printf("    mapper M1, request kind %d repeated %d times, then Discover(M2) and Discover(M1)\n", kind, reps);
}
static void run_long_sessions(void) {
    static const int CP[12] = {254, 255, 256, 257, 510, 511, 512, 513, 65534, 65535, 65536, 65537};
    static int p[2];
    for (int kind = 0; kind < 6; kind++) for (int c = 0; c < (vf_thorough() ? 12 : 8); c++) { p[0] = 1000 + kind; p[1] = CP[c]; e1_manual_path(&ancfg, p, 2); ls_case(kind, CP[c]); vf_outcome(vf_trace_hash() ^ (uint64_t)(kind * 131 + c)); }
}

/* ------------------------------------------------------------- sequence-number sweep (part of mode "addr")
 * The active mapper sends ONE request with sequence number s (every s in 0..65535; 0 means "unsequenced" for some requests);
 * whatever the responder does with that request, the role must stay where it is: Discover(M2) refused, Discover(M1) answered.
 * kinds: Query, QueryLargeTlv, Emit, each directly and through the bridge.  pseudo path: [2000 + kind, s] */
static void sq_case(int kind, int seq) {
    int via = (kind & 1) ? ST_BR : ST_M1; int k = kind >> 1;
    vf_world_reset(); root_setup();
    pev d = ev_discover(0, ST_M1, via, 0x1111, 1); vf_trace_clear(); { int ex = arbiter_step(&d); drv_linux(&d, 0); oracle(&d, ex); }
    pev e = k == 0 ? ev_query(0, ST_M1, via, (uint16_t)seq) : k == 1 ? ev_qlt(0, ST_M1, via, (uint16_t)seq, 0x0E, 0) : ev_emit1(0, ST_M1, via, (uint16_t)seq, 1, 0, ST_S0, ST_PEER);
    vf_trace_clear(); arbiter_step(&e); drv_linux(&e, 0);
    pev s1 = ev_discover(0, ST_M2, ST_M2, 0x2222, 7), s2 = ev_discover(0, ST_M1, via, 0x1111, 9);
    vf_trace_clear(); { int ex = arbiter_step(&s1); drv_linux(&s1, 0); oracle(&s1, ex); }
    vf_trace_clear(); { int ex = arbiter_step(&s2); drv_linux(&s2, 0); oracle(&s2, ex); }
    an_cases++;
    if (A.verbose) printf("    mapper M1%s, request kind %d with sequence number 0x%04x, then Discover(M2) and Discover(M1)\n", (kind & 1) ? " via BR" : "", k, seq);
}
static void run_seq_sweep(void) {
    static int p[2];
    for (int kind = 0; kind < 6; kind++) for (int seq = 0; seq < 65536; seq++) {
        if (!vf_thorough() && seq > 0x0101 && seq < 0xFEFF && (seq & 0xFF) > 1 && (seq & 0xFF) < 0xFF && (seq >> 8) != (seq & 0xFF)) continue;
        p[0] = 2000 + kind; p[1] = seq; e1_manual_path(&ancfg, p, 2); sq_case(kind, seq); vf_outcome(vf_trace_hash() ^ (uint64_t)(kind * 977));
    }
}

static void run_sweep(void) {
    uint64_t evals = 0;
    for (int start = 0; start < 2; start++) {
        for (int code = 0; code < 65536; code++) {
            for (int probe = 0; probe < 2; probe++) {
                int path[3]; int n = 0;
                vf_world_reset(); root_setup();
                if (start) path[n++] = 65538;
                path[n++] = code; path[n++] = 65536 + probe;
                for (int i = 0; i < n; i++) {
                    e1_manual_path(&sweep_cfg, path, i + 1);
                    vf_trace_clear(); sweep_apply(path[i]);
                    if (W.led.bad_free || vf_check_canaries()) vf_violation("heap:corruption", "heap damaged");
                }
                uint64_t th = vf_trace_hash() ^ ((uint64_t)M.arb.v << 56); vf_outcome(th);
                evals++;
            }
        }
    }
    R.evaluations = evals; R.transitions = evals * 2 + 65536 * 2; R.states = 65536 * 2 * 2; R.exhaustive = 1; R.fixpoint = 0;
    vf_sample("start=M1-active ; Op(tos=2,opcode=0,from=M2) ; Discover(from=M1) => must still be answered");
    vf_sample("start=no-mapper ; Op(tos=0,opcode=8,from=M2) ; Discover(from=M2) => accepted");
}

int main(int argc, char **argv) {
    vf_parse_args(argc, argv, "C05");
    vf_world_init(A.mtu, A.wifi, (uint8_t)A.fill);
    build_alphabet();
    if (A.b == 1) {      /* the reduced alphabet (topology + quick service, two stations) keeps the product with the record-list orders closable */
        int n = 0; for (int i = 0; i < NEV; i++) if (EV[i].tos <= 1 && EV[i].realsrc != ST_M3 && EV[i].realsrc != ST_BR) EV[n++] = EV[i];
        NEV = n; BG0 = NEV; EV[NEV++] = ev_hello(0, ST_PEER, 0x3412); EV[NEV++] = ev_hello(0, ST_PEER, 0x3412);
    }
    e1_cfg cfg = { .nev = NEV, .ev_name = ev_name, .apply = apply, .root_setup = root_setup,
                   .model = &M, .model_size = sizeof M, .deadline_s = A.deadline };
    int sweep = strcmp(A.mode, "sweep") == 0, addr = strcmp(A.mode, "addr") == 0;
    if (A.replay) { A.verbose = 1; return e1_replay_file(addr ? &ancfg : sweep ? &sweep_cfg : &cfg, A.replay); }
    double t0 = vf_now_s();
    if (addr) { run_neighbours(); run_long_sessions(); run_seq_sweep(); vf_sample("sequence sweep: the mapper's Query / QueryLargeTlv / Emit (direct, bridged) with sequence number %s, then Discover(M2) refused and Discover(M1) answered", vf_thorough() ? "0..65535" : "0..0x0101, 0xFEFF..0xFFFF and every value with a low byte in {0,1,0xFF} or equal bytes"); vf_sample("long sessions: 6 request kinds repeated 254..257 / 510..513%s times by the mapper, then Discover(M2) refused and Discover(M1) answered", vf_thorough() ? " / 65534..65537" : ""); R.evaluations = an_cases * 5; R.exhaustive = 1; vf_sample("3 base mapper addresses x {48 one-bit neighbours, 3 twins} x both services: Discover(X) accepted, Discover(Y) refused, Discover(X) accepted, Reset, Discover(Y) accepted"); }
    else if (sweep) run_sweep();
    else {
        e1_stats st; e1_run(&cfg, &st);
        R.states = st.states; R.transitions = st.transitions; R.max_depth = st.max_depth; R.fixpoint = st.fixpoint;
        R.exhaustive = st.fixpoint; R.cap_hit = st.cap; R.evaluations = st.transitions;
        vf_extra("alphabet", "%d events", NEV);
        vf_extra("selfcheck_replays", "%llu", (unsigned long long)st.selfcheck_replays);
    }
    R.wall_s = vf_now_s() - t0;
    vf_write_results();
    return 0;
}
