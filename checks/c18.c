/* C18 - platform faults degrade service gracefully and never wedge the responder (E5).
 * Every fallible port call is a numbered choice point.  For every scenario (all request histories of
 * length <= 2 from two start states, plus the four constructors) the harness runs:
 *   slot 0            fault-free (records the choice points)
 *   slot 1            every transmit refused
 *   slot 2..17        every allocation from the k-th on fails (k = 0..15)
 *   getter slots      every subset of failing getters (6 platform getters: 64; thorough: + 6 attribute getters: 4096)
 *   deviation slots   the i-th fallible call fails (i = 0..95); thorough: additionally every later j
 * san flavour (--mode faults): ASan/UBSan + partial-service + leak oracles, in forked children.
 * plain flavour (--mode equiv): after the faulty scenario and a Reset the responder must be trace-
 *   equivalent to a fresh one under all continuations (E3 pair closure as in C09). */
#include "../mc/oracles.h"
#include "lltdAutomata.h"

#include <stdlib.h>
#include <string.h>

#ifdef VF_SAN
#include "../mc/forkrun.h"
#else
#include "../mc/e3.h"
#endif

/* ------------------------------------------------------------ scenarios */
static pev REQ[16]; static int NREQ;
static void build_requests(void) {
    NREQ = 0;
    REQ[NREQ++] = ev_discover(0, ST_M1, ST_M1, 0x1234, 1);
    REQ[NREQ++] = ev_discover(1, ST_M1, ST_BR, 0x0002, 1);
    { pev e = ev_emit1(0, ST_M1, ST_M1, 8, 1, 1, ST_S0, ST_PEER); e.nd = 2; e.d[1].type = 0; e.d[1].pause = 0; e.d[1].src = ST_OWN; e.d[1].dst = ST_S1; REQ[NREQ++] = e; }
    REQ[NREQ++] = ev_probe(0x04, 0, ST_S1, ST_S1, ST_OWN, ST_OWN);
    REQ[NREQ++] = ev_query(0, ST_M1, ST_M1, 2);
    REQ[NREQ++] = ev_qlt(0, ST_M1, ST_M1, 5, 0x0E, 0);
    REQ[NREQ++] = ev_qlt(0, ST_M1, ST_M1, 5, 0x11, 0);
    REQ[NREQ++] = ev_qlt(1, ST_M1, ST_M1, 5, 0x13, 0);
    REQ[NREQ++] = ev_qlt(0, ST_M1, ST_M1, 5, 0x42, 0);
    REQ[NREQ++] = ev_qlt(0, ST_M1, ST_BR, 6, 0x0E, 0);      /* the same through a bridge: the answer is broadcast */
    REQ[NREQ++] = ev_reset(0, ST_M1);
}
/* scenario id: start*(NREQ+NREQ*NREQ) + (len1: r | len2: NREQ + r1*NREQ + r2); constructors: 2*(...) + c */
#define NSTART 4
static int nscen_req(void) { return NSTART * (NREQ + NREQ * NREQ); }
static int NSCEN;
static void scen_decode(int s, int *start, int *r1, int *r2, int *ctor) {
    *ctor = -1; *r2 = -1;
    if (s >= nscen_req()) { *ctor = s - nscen_req(); *start = 0; *r1 = -1; return; }
    int per = NREQ + NREQ * NREQ; *start = s / per; int k = s % per;
    if (k < NREQ) *r1 = k; else { k -= NREQ; *r1 = k / NREQ; *r2 = k % NREQ; }
}
static void scen_name(int s, char *b, size_t cap) {
    int start, r1, r2, ctor; scen_decode(s, &start, &r1, &r2, &ctor);
    static const char *cn[] = {"init_automata_mapping", "init_automata_enumeration", "init_automata_session", "session_table_create"};
    if (ctor >= 0) { snprintf(b, cap, "constructor %s", cn[ctor]); return; }
    char n1[120], n2[120] = ""; pev_name(&REQ[r1], n1, sizeof n1); if (r2 >= 0) pev_name(&REQ[r2], n2, sizeof n2);
    snprintf(b, cap, "from %s: %s%s%s", start == 3 ? "[fresh; a second interface of the responder is in a session with 2 observations]" : start == 2 ? "[mapper active, two observations more than one QueryResp carries]" : start ? "[mapper active, 2 observations, icon cached]" : "[fresh]", n1, r2 >= 0 ? " ; " : "", n2);
}

/* ------------------------------------------------------------ fault slots */
#define SLOT_SENDS 1
#define SLOT_ALLOCK 2
#define N_ALLOCK 16
#define SLOT_GETTERS (SLOT_ALLOCK + N_ALLOCK)
static int NGETSUB;                    /* 64 or 4096 */
#define SLOT_DEV (SLOT_GETTERS + NGETSUB)
#define N_DEV 96
#define NSLOTS (SLOT_DEV + N_DEV)
static const uint32_t GBITS[12] = {VF_G_MTU, VF_G_MAC, VF_G_ICON, VF_G_FNAME, VF_G_HWID, VF_G_HOSTNAME, VF_G_IFTYPE, VF_G_IPV4, VF_G_IPV6, VF_G_SPEED, VF_G_WIFIMODE, VF_G_SSID};

static void plan_clear(void) { memset(&W.fp, 0, sizeof W.fp); W.fp.sticky_kind = -1; W.fp.one_kind = -1; W.iface[0].fail = 0; W.host.fail = 0; }
static void plan_set(int slot, int second) {
    plan_clear();
    W.fp.active = 1;
    if (slot == SLOT_SENDS) { W.fp.sticky_kind = VF_F_SEND; W.fp.sticky_from = 0; }
    else if (slot >= SLOT_ALLOCK && slot < SLOT_GETTERS) { W.fp.sticky_kind = VF_F_MALLOC; W.fp.sticky_from = (uint32_t)(slot - SLOT_ALLOCK); }
    else if (slot >= SLOT_GETTERS && slot < SLOT_DEV) {
        int sub = slot - SLOT_GETTERS; uint32_t m = 0; for (int b = 0; b < 12; b++) if (sub & (1 << b)) m |= GBITS[b];
        W.iface[0].fail = m & ~(VF_G_ICON | VF_G_FNAME | VF_G_HWID | VF_G_HOSTNAME); W.host.fail = m & (VF_G_ICON | VF_G_FNAME | VF_G_HWID | VF_G_HOSTNAME);
    } else if (slot >= SLOT_DEV) { W.fp.ndev = 1; W.fp.dev[0] = (uint32_t)(slot - SLOT_DEV); if (second >= 0) { W.fp.ndev = 2; W.fp.dev[1] = (uint32_t)second; } }
}
static void slot_name(int slot, int second, char *b, size_t cap) {
    if (slot == 0) snprintf(b, cap, "no fault");
    else if (slot == SLOT_SENDS) snprintf(b, cap, "every transmit refused");
    else if (slot < SLOT_GETTERS) snprintf(b, cap, "allocations fail from the %d-th on", slot - SLOT_ALLOCK);
    else if (slot < SLOT_DEV) snprintf(b, cap, "getter subset 0x%03x fails (bits: mtu mac icon name hwid hostname iftype ipv4 ipv6 speed wifimode ssid)", slot - SLOT_GETTERS);
    else if (second >= 0) snprintf(b, cap, "fallible calls #%d and #%d fail", slot - SLOT_DEV, second);
    else snprintf(b, cap, "fallible call #%d fails", slot - SLOT_DEV);
}

/* ------------------------------------------------------------ running one (scenario, plan) */
static uint64_t evals, effective;
static uint32_t base_blocks; static uint64_t base_bytes;      /* per-interface record of a fresh responder, measured in main() */
static void start_state(int start) {
    if (!start) return;
    if (start == 3) {      /* the responder's OTHER interface is mid-session (no fault there); the faulty scenario then runs on interface 0 from fresh */
        pev e = ev_discover(0, ST_M1, ST_M1, 0x1234, 1); drv_linux(&e, 1);
        e = ev_probe(0x04, 0, ST_S0, ST_S0, ST_OWN, ST_OWN); drv_linux(&e, 1);
        e = ev_probe(0x03, 0, ST_PEER, ST_BR, ST_OWN, ST_OWN); drv_linux(&e, 1);
        return;
    }
    pev e = ev_discover(0, ST_M1, ST_M1, 0x1234, 1); drv_linux(&e, 0);
    if (start == 2) {      /* a see-list that needs two QueryResp frames: the first answer carries the 'more' flag */
        int n = (int)((W.iface[0].mtu - 34) / 20) + 2;
        for (int k = 0; k < n; k++) {
            uint8_t f[64], src[6] = {0x00, 0x50, 0x56, 0x10, (uint8_t)(k >> 8), (uint8_t)k};
            fb_base(f, W.iface[0].mac, src, 0, (k & 1) ? 0x04 : 0x03, W.iface[0].mac, src, 0);
            vf_iface *fi = &W.iface[0]; memset(fi->recv, 0, fi->recv_prev_len);
            drv_linux_deliver(0, f, 32);
        }
        return;
    }
    e = ev_probe(0x04, 0, ST_S0, ST_S0, ST_OWN, ST_OWN); drv_linux(&e, 0);
    e = ev_probe(0x03, 0, ST_PEER, ST_BR, ST_OWN, ST_OWN); drv_linux(&e, 0);
    e = ev_qlt(0, ST_M1, ST_M1, 5, 0x0E, 0); drv_linux(&e, 0);
}
static int allowed_frames(const pev *e) { return e->opcode == 0x02 ? e->nd + 1 : (e->opcode == 0x00 || e->opcode == 0x06 || e->opcode == 0x0B) ? 1 : 0; }

static void check_service(const pev *e, const char *what) {
    char nm[140]; pev_name(e, nm, sizeof nm);
    int n = tr_sends();
    if (n > allowed_frames(e)) vf_violation("faults:more-frames-than-fault-free", "%s under [%s]: %d frames transmitted, the request produces at most %d without faults", nm, what, n, allowed_frames(e));
    size_t bound = (W.iface[0].fail & VF_G_MTU) || W.fp.took_effect ? (W.iface[0].mtu > 1500 ? W.iface[0].mtu : 1500) : W.iface[0].mtu;
    for (int k = 0; k < n; k++) {
        const vf_trec *t = tr_send(k); wd_frame f;
        if (t->len > bound) { vf_violation("faults:frame-exceeds-mtu", "%s under [%s]: frame of %u bytes (MTU %zu)", nm, what, t->len, W.iface[0].mtu); continue; }
        if (wd_decode(tr_bytes(t), t->len, &f)) { vf_violation("faults:frame-not-decodable", "%s under [%s]: %u bytes transmitted, shorter than an LLTD header", nm, what, t->len); continue; }
        const char *why = wd_wellformed(&f, f.realsrc, bound);
        if (why && strncmp(why, "hello-", 6) != 0) { char sig[120]; snprintf(sig, sizeof sig, "faults:frame-malformed:%s", why); vf_violation(sig, "%s under [%s]: transmitted frame (opcode 0x%02x, %u bytes) is structurally broken: %s", nm, what, f.opcode, t->len, why); }
    }
}

static void run_ctor(int ctor, int slot, int second, const char *what) {
    static const char *cn[] = {"init_automata_mapping", "init_automata_enumeration", "init_automata_session", "session_table_create"};
    uint32_t before = vf_live_blocks();
    plan_set(slot, second);
    void *r = ctor == 0 ? (void *)init_automata_mapping() : ctor == 1 ? (void *)init_automata_enumeration() : ctor == 2 ? (void *)init_automata_session() : (void *)session_table_create();
    uint32_t eff = W.fp.took_effect; uint32_t pts = W.fp.npoints;
    plan_clear();
    evals++;
    if (eff) {
        effective++;
        if (!r) {
            if (vf_live_blocks() != before) { char sig[96]; snprintf(sig, sizeof sig, "ctor:leak-on-failure:%s", cn[ctor]); vf_violation(sig, "%s under [%s]: failed, but %u block(s) stay allocated", cn[ctor], what, vf_live_blocks() - before); }
        } else {
            /* a degraded object (e.g. without its extra state) is acceptable only if it is safe to use:
             * drive it through its API under the sanitizers */
            if (ctor == 0) { switch_state_mapping(r, 0x00, "x"); switch_state_mapping(r, 0x08, "x"); automata_tick(r, NULL, NULL, NULL); mapping_reset_inactive_timeout(((automata *)r)->extra); mapping_on_charge(((automata *)r)->extra); }
            if (ctor == 1) { switch_state_enumeration(r, enum_new_session, "x"); session_table *t = session_table_create(); automata_tick(NULL, r, t, NULL); W.now_ms += 2000; automata_tick(NULL, r, t, NULL); band_on_hello_received(((automata *)r)->extra); }
            if (ctor == 2) { switch_state_session(r, sess_discover_noack, "x"); switch_state_session(r, sess_reset, "x"); }
            if (ctor == 3) { session_table_add(r, vf_station[ST_M1], 1, 1); session_table_clear(r); }
        }
    } else if (!r) { char sig[96]; snprintf(sig, sizeof sig, "ctor:fails-without-fault:%s", cn[ctor]); vf_violation(sig, "%s returned NULL without any fault", cn[ctor]); }
    uint32_t o[3] = {(uint32_t)ctor, eff, r != NULL}; vf_outcome(vf_hash64(o, sizeof o, 8));
}

/* returns number of fallible points seen (for nested enumeration) */
static uint32_t run_scenario(int s, int slot, int second) {
    int start, r1, r2, ctor; scen_decode(s, &start, &r1, &r2, &ctor);
    char what[160]; slot_name(slot, second, what, sizeof what);
    vf_world_reset();
    plan_clear();
    if (ctor >= 0) { run_ctor(ctor, slot, second, what); return 0; }
    start_state(start);
    plan_set(slot, second);
    int reqs[2] = {r1, r2};
    for (int k = 0; k < 2 && reqs[k] >= 0; k++) {
        vf_trace_clear();
        drv_linux(&REQ[reqs[k]], 0);
        check_service(&REQ[reqs[k]], what);
        vf_outcome(vf_trace_hash() ^ ((uint64_t)W.fp.took_effect << 40));
    }
    uint32_t pts = W.fp.npoints; if (W.fp.took_effect || W.iface[0].fail || W.host.fail) effective++;
    plan_clear();
    evals++;
    /* the fault has cleared: requests that arrive now are not "the affected request" - whatever they make the
     * responder transmit must be completely well-formed again (own address as source, within the MTU) */
    {
        pev sfx[3] = { ev_discover(0, ST_M1, ST_M1, 0x4321, 9), ev_query(0, ST_M1, ST_M1, 0x0a0a), ev_qlt(0, ST_M1, ST_M1, 0x0b0b, 0x0E, 0) };
        for (int k = 0; k < 3; k++) {
            vf_trace_clear(); drv_linux(&sfx[k], 0);
            for (int j = 0; j < tr_sends(); j++) {
                const vf_trec *t = tr_send(j); wd_frame f;
                if (wd_decode(tr_bytes(t), t->len, &f)) { vf_violation("faults:after-fault-cleared:undecodable", "scenario under [%s]; after the fault cleared a request is answered with %u undecodable bytes", what, t->len); continue; }
                const char *why = wd_wellformed(&f, W.iface[0].mac, W.iface[0].mtu);
                if (why) { char sig[120]; snprintf(sig, sizeof sig, "faults:after-fault-cleared:%s", why); char nm[140]; pev_name(&sfx[k], nm, sizeof nm); vf_violation(sig, "scenario under [%s]; the fault has cleared, yet %s is answered with a frame (opcode 0x%02x, %u bytes) that is not well-formed: %s", what, nm, f.opcode, t->len, why); }
            }
        }
    }
    uint32_t nif = 1;
    if (start == 3) {      /* the other interface never saw a fault: its session must be intact (mapper still bound, both observations reported) */
        nif = 2;
        pev d2 = ev_discover(0, ST_M2, ST_M2, 0x5555, 3); vf_trace_clear(); drv_linux(&d2, 1);
        if (tr_sends()) vf_violation("faults:other-interface-lost-its-mapper", "scenario under [%s] on interface 0: interface 1, which saw no fault, now answers a Discover of a station that is not its mapper", what);
        pev q2 = ev_query(0, ST_M1, ST_M1, 0x0c0c); vf_trace_clear(); drv_linux(&q2, 1);
        const vf_trec *t = tr_send(0);
        unsigned cnt = (t && t->len >= 34) ? (unsigned)(((tr_bytes(t)[32] << 8) | tr_bytes(t)[33]) & 0x3FFF) : 9999;
        if (tr_sends() != 1 || cnt != 2) vf_violation("faults:other-interface-lost-its-observations", "scenario under [%s] on interface 0: interface 1, which saw no fault, answers its Query with %d frame(s) and %u observations instead of 2", what, tr_sends(), cnt);
        pev r1 = ev_reset(0, ST_M1); vf_trace_clear(); drv_linux(&r1, 1);
    }
    /* faults are over: a topology Reset must leave nothing but the per-interface record */
    vf_trace_clear();
    pev rs = ev_reset(0, ST_M1); drv_linux(&rs, 0);
    if (vf_live_blocks() > nif * base_blocks || vf_live_bytes() > nif * base_bytes) vf_violation("faults:leak-after-reset", "scenario under [%s], then Reset: %u blocks (%llu bytes) remain allocated; a fresh responder keeps %u block(s), %llu bytes", what, vf_live_blocks(), (unsigned long long)vf_live_bytes(), base_blocks, (unsigned long long)base_bytes);
    if (W.led.bad_free) vf_violation("faults:bad-free", "scenario under [%s]: free of a pointer that is not a live allocation", what);
    return pts;
}

/* ------------------------------------------------------------ drivers */
static int cur_s, cur_slot, cur_second;
#ifdef VF_SAN
static void exec_idx(uint64_t idx) {
    int s = (int)(idx / (uint64_t)NSLOTS), slot = (int)(idx % (uint64_t)NSLOTS);
    uint32_t pts = run_scenario(s, slot, -1);
    if (vf_thorough() && slot >= SLOT_DEV && (uint32_t)(slot - SLOT_DEV) < pts)
        for (uint32_t j = (uint32_t)(slot - SLOT_DEV) + 1; j < pts + 8 && j < 200; j++) { fr_note(j); run_scenario(s, slot, (int)j); }
    fr_note(0);
}
static void describe(uint64_t idx, FILE *f) {
    int s = (int)(idx / (uint64_t)NSLOTS), slot = (int)(idx % (uint64_t)NSLOTS); int second = fr_last_note ? (int)fr_last_note : -1;
    char sn[400], pn[200]; scen_name(s, sn, sizeof sn); slot_name(slot, second, pn, sizeof pn);
    fprintf(f, "\"events\":[%d,%d,%d],\"scenario\":\"", s, slot, second);
    for (char *c = sn; *c; c++) if (*c != '"' && *c != '\\') fputc(*c, f);
    fprintf(f, "\",\"fault_plan\":\"%s\"", pn);
}
#else
static const pev RESET0 = { .opcode = 8, .tos = 0, .realsrc = ST_M1, .ethsrc = ST_M1, .realdst = ST_BC, .ethdst = ST_BC, .own_pos = -1 };
static pev CV[1024]; static int NCV;
static void cv_name(int ev, char *b, size_t cap) { pev_name(&CV[ev], b, cap); }
static void pre_name(int ev, char *b, size_t cap) { snprintf(b, cap, "arg(%d)", ev); }
static int touches(int ev, int w) { (void)ev; (void)w; return 1; }
static void apply3(int ev, int w) { (void)w; drv_linux(&CV[ev], 0); }
static const char *sig_of(int ev) { static char b[32]; snprintf(b, sizeof b, "op=0x%02x,tos=%u", CV[ev].opcode, CV[ev].tos); return b; }
static void seed_from_prefix(const int *p, int n, vf_snap **snaps) {
    (void)n; run_scenario(p[0], p[1], p[2]);
    snaps[0] = vf_snapshot(NULL, 0);
    vf_world_reset(); plan_clear();
    snaps[1] = vf_snapshot(NULL, 0);
}
static e3_cfg c3 = { .nworlds = 2, .ev_name = cv_name, .pre_name = pre_name, .touches = touches, .apply = apply3, .sig_prefix = "faults:post-reset-divergence", .sig_of = sig_of,
                     .same_iface = 1, .seed_from_prefix = seed_from_prefix };
#endif

int main(int argc, char **argv) {
    vf_parse_args(argc, argv, "C18");
    vf_world_init(A.mtu, A.wifi, (uint8_t)A.fill);
    if (A.wifi) vf_rich_platform();      /* the wireless runs: maximal-length machine name, SSID and hardware ID (the largest Hello, the longest scans) */
    build_requests();
    { vf_world_reset(); pev rs0 = ev_reset(0, ST_M1); vf_trace_clear(); drv_linux(&rs0, 0); base_blocks = vf_live_blocks(); base_bytes = vf_live_bytes(); vf_world_reset(); }
    NSCEN = nscen_req() + 4;
    NGETSUB = vf_thorough() ? 4096 : 64;
    double t0 = vf_now_s();
    (void)cur_s; (void)cur_slot; (void)cur_second;
#ifdef VF_SAN
    fr_cfg fc = { .exec = exec_idx, .describe = describe, .sig_prefix = "faults:crash" };
    fr_stats st;
    if (A.replay) {
        FILE *f = fopen(A.replay, "r"); static char buf[1 << 16]; size_t n = f ? fread(buf, 1, sizeof buf - 1, f) : 0; buf[n] = 0; if (f) fclose(f);
        char *q = strstr(buf, "\"events\":["); int s, slot, second; if (!q || sscanf(q + 10, "%d,%d,%d", &s, &slot, &second) != 3) return 2;
        char sn[400], pn[200]; scen_name(s, sn, sizeof sn); slot_name(slot, second, pn, sizeof pn);
        printf("scenario: %s\nfault plan: %s\n", sn, pn);
        fc.max_same_sig = 1;
        uint64_t idx = (uint64_t)s * (uint64_t)NSLOTS + (uint64_t)slot;
        for (int round = 0; round < 2; round++) { fr_run(&fc, idx, idx + 1, &st); printf("replay round %d: %s\n", round, st.deaths ? "crash / sanitizer report reproduced" : vf_nviolations() ? "oracle violation reproduced" : "ran clean"); }
        return vf_nviolations() ? 1 : 0;
    }
    uint64_t total = (uint64_t)NSCEN * (uint64_t)NSLOTS;
    fr_run(&fc, total * (uint64_t)A.part / (uint64_t)A.nparts, total * (uint64_t)(A.part + 1) / (uint64_t)A.nparts, &st);
    R.evaluations = st.executed; R.exhaustive = st.cap == NULL; R.cap_hit = st.cap;
    vf_sample("%d scenarios (4 start states x histories of length <= 2 over %d requests, + 4 constructors) x %d fault plans (fault-free, sends refused, allocations fail from k on, %d getter subsets, %d single deviations%s)", NSCEN, NREQ, NSLOTS, NGETSUB, N_DEV, vf_thorough() ? " each extended by every later second deviation" : "");
#else
    NCV = sigma_build(CV, 1024, vf_thorough() ? SIGMA_P : SIGMA_SMALL); c3.nev = NCV;
    c3.deadline_s = A.deadline;
    if (A.replay) { A.verbose = 1; return e3_replay_file(&c3, A.replay); }
    e3_begin(&c3);
    vf_world_reset(); plan_clear(); vf_snap *fresh = vf_snapshot(NULL, 0);
    uint64_t tried = 0;
    for (int s = A.part; s < nscen_req(); s += A.nparts) for (int slot = 0; slot < NSLOTS; slot++) {
        if (slot >= SLOT_GETTERS && slot < SLOT_DEV && (slot - SLOT_GETTERS) >= 64) continue;      /* getter subsets do not change retained state: 64 suffice here */
        uint32_t pts = run_scenario(s, slot, -1);
        if (slot >= SLOT_DEV && (uint32_t)(slot - SLOT_DEV) >= pts) break;
        vf_snap *snaps[E3_MAXW] = { vf_snapshot(NULL, 0), fresh, NULL };
        int pre[3] = { s, slot, -1 };
        e3_add_seed(snaps, pre, 3); free(snaps[0]); tried++;
    }
    e3_stats s3; e3_run(&s3);
    R.states = s3.states; R.transitions = s3.executions; R.evaluations = evals; R.max_depth = s3.max_depth; R.fixpoint = s3.fixpoint; R.exhaustive = s3.fixpoint; R.cap_hit = s3.cap;
    vf_extra("equiv", "%llu (scenario, fault plan) executions, each followed by Reset: %u distinct (post-fault, fresh) pairs; pair closure over %d continuation events: %llu pairs, fixpoint=%d", (unsigned long long)tried, s3.seeds, NCV, (unsigned long long)s3.states, s3.fixpoint);
    vf_sample("scenario under a fault plan ; Reset ; then every continuation over %d events: traces must equal a fresh responder's", NCV);
#endif
#ifndef VF_SAN
    vf_extra("effective", "%llu executions in which at least one injected fault took effect", (unsigned long long)effective);
#endif
    R.wall_s = vf_now_s() - t0;
    vf_write_results();
    return 0;
}
