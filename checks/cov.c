/* C01 alphabet self-check (E4 "read-offset coverage"), tsanabi flavour.
 * The core, compiled with -fsanitize=thread and linked against the harness hooks, reports every memory access.
 * Every second-frame shape of the C01 enumeration is pushed through the three receive entry points; the set of
 * receive-buffer offsets the core READS is recorded per opcode and compared with the offsets whose content
 * the shape alphabet varies.  An offset that is read but never varied means the C01 enumeration does not
 * exercise a field the code depends on: reported as a cap of the run (exhaustive:false, the alphabet must be
 * extended), never as a property verdict. */
#include "../mc/darwin.h"
#include "../mc/sigma.h"
#include "../mc/tsan_hooks.h"
#include "lltdBlock.h"
#include "lltd_esp32.h"

#include "shapes.h"

static uint8_t rbuf[VF_MAXMTU + 64];
static uint8_t readmap[256][VF_MAXMTU];     /* [opcode][offset] */
static int cur_op;
static void observer(const void *addr, size_t n, int is_write) {
    const uint8_t *a = addr;
    if (is_write || a + n <= rbuf || a >= rbuf + MTU) return;
    for (size_t i = 0; i < n; i++) { long off = (a + i) - rbuf; if (off >= 0 && (size_t)off < MTU) readmap[cur_op][off] = 1; }
}

/* offsets whose content the alphabet varies, per opcode */
static int varied(int op, size_t off) {
    if (off <= 11) return 1;                       /* Ethernet destination / source: address roles */
    if (off == 15 || off == 17) return 1;          /* ToS, opcode */
    if (off >= 18 && off <= 31) return 1;          /* real destination, real source, sequence number */
    if (op == 0x00) return off >= 32;              /* generation, station count, station list (content + stale tails) */
    if (op == 0x01) return off == 32 || off == 33; /* generation */
    if (op == 0x02) return off >= 32;              /* descriptor count, descriptors (kind, pause; addresses fixed but tails vary) */
    if (op == 0x0B) return off == 32 || off == 34 || off == 35;   /* property type, offset */
    return 0;
}

int main(int argc, char **argv) {
    vf_parse_args(argc, argv, "C01");
    vf_world_init(A.mtu, A.wifi, (uint8_t)A.fill);
    MTU = A.mtu; OWN = W.iface[0].mac;
    build_full();
    double t0 = vf_now_s();
    vf_access_observer = observer;
    static uint8_t img[VF_MAXMTU + 64];
    uint64_t evals = 0;
    for (int i = 0; i < NFULL; i++) {
        const shape *s = &FULL[i];
        size_t L = render(s, img);
        if (L < 32) continue;                      /* runt frames read stale bytes: covered by the fill patterns of C01 itself */
        cur_op = s->opcode;
        /* linux path */
        vf_world_reset(); memset(rbuf, 0xA5, MTU); memcpy(rbuf, img, L);
        vf_access_observer = observer; parseFrame(rbuf, vf_ctx(0));
        /* darwin path */
        vf_world_reset(); memset(rbuf, 0xA5, MTU); memcpy(rbuf, img, L);
        dw_iface D; vf_access_observer = NULL; dw_init(&D, 0); D.call_parse_frame = 1; vf_access_observer = observer; dw_frame(&D, rbuf, L);
        /* esp32 path */
        vf_world_reset(); vf_access_observer = NULL; lltd_esp32_ctx_t ctx; lltd_esp32_init(&ctx); memcpy(rbuf, img, L); vf_access_observer = observer; lltd_esp32_handle_frame(&ctx, rbuf, L);
        vf_access_observer = NULL;
        evals += 3;
    }
    int uncovered = 0; char msg[900] = ""; size_t o = 0; uint64_t nread = 0;
    for (int op = 0; op < 256; op++) for (size_t off = 0; off < MTU; off++) if (readmap[op][off]) {
        nread++;
        if (!varied(op, off)) { uncovered++; if (o + 40 < sizeof msg) o += (size_t)snprintf(msg + o, sizeof msg - o, " (opcode 0x%02x, offset %zu)", op, off); }
    }
    vf_outcome(nread); vf_outcome(nread + 1);
    R.evaluations = evals; R.exhaustive = 1; R.wall_s = vf_now_s() - t0;
    vf_extra("read_offset_coverage", "%llu (opcode, offset) pairs read by the core over %d shapes x 3 entry points at MTU %zu; %d not varied by the alphabet", (unsigned long long)nread, NFULL, MTU, uncovered);
    vf_sample("alphabet self-check: receive-buffer offsets read per opcode are a subset of the offsets the C01 shapes vary");
    /* not a property verdict and not a reason to distrust the other runs: the coverage statement of C01 is weakened and says so */
    if (uncovered) { static char cap[1000]; snprintf(cap, sizeof cap, "alphabet self-check: the core reads receive-buffer offsets the C01 shapes do not vary:%s", msg); R.exhaustive = 0; R.cap_hit = cap; }
    vf_write_results();
    return 0;
}
