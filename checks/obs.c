/* C07 (every observed probe is reported exactly once) and C19 (bounded memory, no leaks):
 * E1 over a counting alphabet with a generator event.  Observation k has real source S(k),
 * Ethernet source S(k) or a bridge B(k) (k%3==0), kind Probe/Train by parity. */
#include "../mc/oracles.h"

#include <stdlib.h>
#include <string.h>

#define KMAX 2048
static int mode;                      /* 7, 19, or 2 (C02's structural oracles on the counting closure) */
static int klimit;                    /* generator disabled at this many outstanding observations (C07: 300) */

static struct model {
    uint8_t out[KMAX / 8];            /* outstanding observations (bitmap) */
    uint16_t nout;
    uint8_t first_frame_seen;
    uint8_t last_fresh;               /* last_rec was recorded by a new observation and no Query has been answered since */
    uint8_t reobs;                    /* a delivered station was observed again; until the next Query no further new observations (keeps the closure linear in k) */
    uint16_t last_rec;                /* index of the most recently recorded observation + 1 (0 = none since the last Reset) */
    uint8_t icon_cached;              /* C19: a QueryLargeTlv(icon) retained a block since the last Reset (observed, not assumed) */
} M;

enum { E_OBSNEW, E_DUP_OLD, E_DUP_NEW, E_REOBS_LAST, E_OTHER, E_OTHER2, E_QUERY, E_QUERY_BR, E_QUERY_HI, E_RESET0, E_RESET1, E_DISC, E_QLT_ICON, E_QLT_NAME,
       E_QLT_HWID, E_EMIT, E_BG1, E_BG2, E_DUP_KIND, E_NEV };     /* E_BG1/2 (only with --b 1): a Probe for the second interface received on it / a neighbour's Hello heard on the third interface */
static const char *ENAME[] = {"ObsNew", "ProbeDup(oldest)", "ProbeDup(newest)", "Probe again from the most recently recorded station", "ProbeForPEER", "TrainForPEER(eth dst OWN)", "Query(M1,seq=1)", "Query(M2 via BR,seq=0xFFFE)",
                              "Query(M1,seq=0x0203)", "Reset(tos0)", "Reset(tos1)", "Discover(M1)", "QueryLargeTlv(icon)", "QueryLargeTlv(name)", "QueryLargeTlv(hwid)", "Emit(1)",
                              "on interface 1: a neighbour's Hello", "on interface 2: a neighbour's Hello",
                              "the newest outstanding station again, as the other kind of frame (Probe <-> Train)"};

static int has(int k) { return (M.out[k >> 3] >> (k & 7)) & 1; }
static void setb(int k, int v) { if (v) M.out[k >> 3] |= (uint8_t)(1u << (k & 7)); else M.out[k >> 3] &= (uint8_t)~(1u << (k & 7)); }
static int lowest_free(void) { for (int k = 0; k < KMAX; k++) if (!has(k)) return k; return -1; }
static int oldest(void) { for (int k = 0; k < KMAX; k++) if (has(k)) return k; return -1; }
static int newest(void) { for (int k = KMAX - 1; k >= 0; k--) if (has(k)) return k; return -1; }

/* observation k: real source R(k), Ethernet source R(k) itself, except
 *   k % 3 == 0          -> the ONE shared bridge address (many observations with equal Ethernet source, different real source)
 *   k % 15 == 1, k > 0  -> real source R(k-1) seen through a second bridge B2(k) (equal real source, different Ethernet source) */
static void obs_addr(int k, uint8_t *real, uint8_t *eth) {
    int r = (k % 15 == 1) ? k - 1 : k;
    uint8_t rr[6] = {0x00, 0x50, 0x56, 0x10, (uint8_t)(r >> 8), (uint8_t)r};
    uint8_t shared[6] = {0x00, 0x0c, 0x29, 0x20, 0x00, 0x01};
    uint8_t b2[6] = {0x00, 0x0c, 0x29, 0x30, (uint8_t)(k >> 8), (uint8_t)k};
    memcpy(real, rr, 6);
    memcpy(eth, (k % 15 == 1) ? b2 : (k % 3 == 0) ? shared : rr, 6);
}
static int obs_kind(int k) { return (k & 1) ? 0 : 1; }      /* descriptor type: 1 Probe, 0 Train */

static int flip_kind;              /* the next send_obs uses the other opcode (same addresses: still the same observation) */
static void send_obs(int k, int for_us) {
    uint8_t f[64], real[6], eth[6];
    obs_addr(k, real, eth);
    const uint8_t *own = W.iface[0].mac;
    const uint8_t *dst = for_us ? own : vf_station[ST_PEER];
    fb_base(f, (k % 5 == 4) ? vf_station[ST_BC] : own, eth, 0, (obs_kind(k) != 0) != (flip_kind != 0) ? 0x04 : 0x03, dst, real, 0);
    flip_kind = 0;
    vf_iface *fi = &W.iface[0]; memset(fi->recv, 0, fi->recv_prev_len);
    drv_linux_deliver(0, f, 32);
}

static size_t capacity(void) { return (W.iface[0].mtu - 34) / 20; }

static int find_obs(const uint8_t *d) {           /* descriptor (20 bytes) -> observation index or -1 */
    if (d[2] != 0x00 || d[3] != 0x50 || d[4] != 0x56 || d[5] != 0x10) return -1;
    int k = (d[6] << 8) | d[7];
    if (d[8] == 0x00 && d[9] == 0x0c && d[10] == 0x29 && d[11] == 0x30) k = (d[12] << 8) | d[13];     /* seen through the second bridge */
    if (k >= KMAX) return -1;
    uint8_t real[6], eth[6]; obs_addr(k, real, eth);
    uint8_t exp[20]; exp[0] = 0; exp[1] = (uint8_t)obs_kind(k); memcpy(exp + 2, real, 6); memcpy(exp + 8, eth, 6);
    memcpy(exp + 14, (k % 5 == 4) ? vf_station[ST_BC] : W.iface[0].mac, 6);
    return memcmp(exp, d, 20) == 0 ? k : -1;
}

static void oracle_query(const pev *q) {
    char nm[160]; pev_name(q, nm, sizeof nm);
    if (tr_sends() != 1) { vf_violation("query:frame-count", "%s answered with %d frames", nm, tr_sends()); return; }
    const vf_trec *t = tr_send(0); wd_frame f; wd_decode(tr_bytes(t), t->len, &f);
    if (f.opcode != 0x07 || t->len < 34) { vf_violation("query:not-a-queryresp", "%s answered with opcode 0x%02x", nm, f.opcode); return; }
    if (f.seq != q->seq) vf_violation("query:sequence-number", "%s: QueryResp carries sequence number 0x%04x", nm, f.seq);
    const uint8_t *expdst = (q->ethsrc != q->realsrc) ? vf_station[ST_BC] : vf_station[q->realsrc];
    if (memcmp(f.ethdst, expdst, 6) || memcmp(f.realdst, expdst, 6))
        vf_violation("query:destination", "%s: QueryResp goes to %02x:..:%02x, expected %s", nm, f.ethdst[0], f.ethdst[5], q->ethsrc != q->realsrc ? "broadcast (mapper behind a bridge)" : "the mapper");
    unsigned cnt = f.count_raw & 0x3FFF; int more = (f.count_raw & 0x8000) != 0;
    if (t->len != 34 + 20 * cnt) { vf_violation("query:length-vs-count", "%s: %u bytes for %u descriptors", nm, t->len, cnt); return; }
    if (cnt > capacity()) vf_violation("query:over-capacity", "%s: %u descriptors exceed the frame capacity %zu", nm, cnt, capacity());
    unsigned before = M.nout;
    for (unsigned i = 0; i < cnt; i++) {
        const uint8_t *d = tr_bytes(t) + 34 + 20 * i;
        int k = find_obs(d);
        if (k < 0) { vf_violation("query:invented-or-distorted-observation", "%s: descriptor %u (real source %02x:%02x:%02x:%02x:%02x:%02x) matches no observation as received", nm, i, d[2], d[3], d[4], d[5], d[6], d[7]); continue; }
        if (!has(k)) { vf_violation("query:not-outstanding-or-duplicate", "%s: observation %d reported although not outstanding (twice in this response or already delivered)", nm, k); continue; }
        setb(k, 0); M.nout--;
    }
    if (before <= capacity()) {
        if (M.nout != 0) vf_violation("query:observations-missing", "%s: %u observations outstanding and fitting in one frame (capacity %zu), but %u were not reported", nm, before, capacity(), M.nout);
        if (more) vf_violation("query:more-flag-spurious", "%s: 'more' flag set although everything was delivered", nm);
        /* whatever the implementation does, the model now follows the statement: nothing outstanding */
        memset(M.out, 0, sizeof M.out); M.nout = 0;
    } else {
        if (cnt == 0) vf_violation("query:no-progress", "%s: %u observations outstanding but none delivered", nm, before);
        if (M.nout > 0 && !more) vf_violation("query:overflow-without-more-flag", "%s: %u observations outstanding exceed the capacity %zu; %u delivered, %u remain, but the 'more' flag is clear", nm, before, capacity(), cnt, M.nout);
        if (M.nout == 0 && more) vf_violation("query:more-flag-spurious", "%s: 'more' flag set although everything was delivered", nm);
    }
}

static uint32_t serial0; static uint32_t newblocks; static uint64_t newbytes;
static void count_new(void *p, size_t size, uint32_t serial, void *arg) { (void)p; (void)arg; if (serial >= serial0) { newblocks++; newbytes += size; } }

static uint64_t max_live_bytes, max_live_blocks;
/* the constant per-interface record, measured (a Reset as the very first frame of a fresh responder), not assumed */
static uint32_t base_blocks; static uint64_t base_bytes;
#define RETAIN_BOUND (262144u + W.host.icon_size)     /* generous: 9x what a 1024-entry list needs; growth beyond it is unbounded growth */
static void measure_baseline(void) { vf_world_reset(); pev e = ev_reset(0, ST_M1); vf_trace_clear(); drv_linux(&e, 0); base_blocks = vf_live_blocks(); base_bytes = vf_live_bytes(); vf_world_reset(); }
static int nodes19(void) { int n = (int)vf_live_blocks() - (M.first_frame_seen ? (int)base_blocks : 0) - M.icon_cached; return n < 0 ? 0 : n; }

/* More was retained than one observation node / one icon: it is still part of the bounded retained state (and not a buffer the
 * handler forgot) if a topology Reset gives it back.  Tried on a copy of the state. */
static int reclaimed_by_reset(void) {
    vf_snap *sn = vf_snapshot(&M, sizeof M);
    uint32_t nt = W.ntrace, tu = W.trace_used, to = W.trace_overflow, st = W.sends_total;
    pev e = ev_reset(0, ST_M1); drv_linux(&e, 0);
    int ok = vf_live_blocks() <= base_blocks && vf_live_bytes() <= base_bytes;
    vf_restore(sn, &M, sizeof M); free(sn);
    W.ntrace = nt; W.trace_used = tu; W.trace_overflow = to; W.sends_total = st;
    return ok;
}
static void apply(int ev) {
    pev q; int is_query = 0; int allowed_retain = 0;
    serial0 = vf_alloc_serial();
    switch (ev) {
        case E_OBSNEW:
            if (mode == 19) { send_obs(nodes19(), 1); allowed_retain = 1; break; }   /* generator index = number of retained observation nodes, read from the ledger */
            { int k = lowest_free(); send_obs(k, 1); setb(k, 1); M.nout++; M.last_rec = (uint16_t)(k + 1); M.last_fresh = 1; allowed_retain = 1; break; }
        case E_DUP_OLD: send_obs(mode == 19 ? 0 : oldest(), 1); allowed_retain = (mode == 19); break;
        case E_DUP_NEW: send_obs(mode == 19 ? (nodes19() ? nodes19() - 1 : 0) : newest(), 1); allowed_retain = (mode == 19); break;
        case E_REOBS_LAST: { int k = M.last_rec - 1; send_obs(k, 1); if (!has(k)) { setb(k, 1); M.nout++; M.reobs = 1; } allowed_retain = 1; break; }   /* already delivered: a new observation; still outstanding: a duplicate */
        case E_OTHER: send_obs(KMAX - 2, 0); break;
        case E_OTHER2: { /* real destination PEER although the Ethernet destination is ours */
            uint8_t f[64]; uint8_t real[6], eth[6]; obs_addr(KMAX - 1, real, eth);
            fb_base(f, W.iface[0].mac, eth, 0, 0x03, vf_station[ST_PEER], real, 0);
            memset(W.iface[0].recv, 0, W.iface[0].recv_prev_len); drv_linux_deliver(0, f, 32); break; }
        case E_QUERY: q = ev_query(0, ST_M1, ST_M1, 1); is_query = 1; break;
        case E_QUERY_BR: q = ev_query(0, ST_M2, ST_BR, 0xFFFE); is_query = 1; break;
        case E_QUERY_HI: q = ev_query(0, ST_M1, ST_M1, 0x0203); is_query = 1; break;
        case E_RESET0: { pev e = ev_reset(0, ST_M1); drv_linux(&e, 0); memset(M.out, 0, sizeof M.out); M.nout = 0; M.last_rec = 0; M.reobs = 0; M.last_fresh = 0; break; }
        case E_RESET1: { pev e = ev_reset(1, ST_M1); drv_linux(&e, 0); break; }
        case E_DISC: { pev e = ev_discover(0, ST_M1, ST_M1, 0x1234, 1); drv_linux(&e, 0); break; }
        case E_QLT_ICON: { pev e = ev_qlt(0, ST_M1, ST_M1, 5, 0x0E, 0); drv_linux(&e, 0); allowed_retain = 1; break; }
        case E_QLT_NAME: { pev e = ev_qlt(0, ST_M1, ST_M1, 5, 0x11, 0); drv_linux(&e, 0); break; }
        case E_QLT_HWID: { pev e = ev_qlt(0, ST_M1, ST_M1, 5, 0x13, 0); drv_linux(&e, 0); break; }
        case E_EMIT: { pev e = ev_emit1(0, ST_M1, ST_M1, 7, 1, 0, ST_S0, ST_PEER); drv_linux(&e, 0); break; }
        case E_DUP_KIND: flip_kind = 1; send_obs(newest(), 1); break;      /* same real source, Ethernet source and destination: recorded once */
        case E_BG1: { pev e = ev_probe(0x04, 0, ST_S0, ST_S0, ST_OWN, ST_OWN); drv_linux(&e, 1); break; }      /* a Probe addressed to the SECOND interface's own address, received there: that interface's business only */
        case E_BG2: { pev e = ev_hello(0, ST_PEER, 0x3412); drv_linux(&e, 2); break; }
    }
    int had_last = is_query && M.last_rec && has(M.last_rec - 1);
    if (is_query) { M.reobs = 0; drv_linux(&q, 0); if (mode == 7 || mode == 2) { int sup = vf_suppress; if (mode == 2) vf_suppress = 1; oracle_query(&q); vf_suppress = sup; } }
    /* the 'most recently recorded station' is remembered only across the one partial Query that delivered it
     * (then it is a function of the outstanding set and the closure stays linear in k) */
    if (is_query && !(had_last && M.last_fresh && !has(M.last_rec - 1) && M.nout > 0)) M.last_rec = 0;
    if (is_query) M.last_fresh = 0;
    if (mode == 2) { oracle_wellformed(0); if (tr_sends() > (is_query || ev == E_DISC || ev == E_QLT_ICON || ev == E_QLT_NAME || ev == E_QLT_HWID ? 1 : ev == E_EMIT ? 2 : 0)) vf_violation("unsolicited:counting-closure", "%s made the responder transmit %d frames", ENAME[ev], tr_sends()); }
    if (mode == 7 && !is_query && tr_sends() > 0 && ev != E_DISC && ev != E_QLT_ICON && ev != E_QLT_NAME && ev != E_QLT_HWID && ev != E_EMIT)
        vf_violation("observation-answered", "%s made the responder transmit", ENAME[ev]);
    if (mode == 19) {
        newblocks = 0; newbytes = 0; vf_each_live(count_new, NULL);
        uint32_t allow = (uint32_t)allowed_retain + (M.first_frame_seen ? 0u : base_blocks);
        if (newblocks > allow && !reclaimed_by_reset()) {
            char sig[96]; snprintf(sig, sizeof sig, "handler-retains-buffer:%s", ENAME[ev]);
            vf_violation(sig, "%s: %u block(s) (%llu bytes) allocated while handling the frame are still live afterwards; at most %u can belong to the bounded retained state", ENAME[ev], newblocks, (unsigned long long)newbytes, allow);
        }
        if (ev == E_QLT_ICON && newblocks > 0) M.icon_cached = 1;
        if (ev == E_RESET0) M.icon_cached = 0;
        if (ev == E_RESET0 && (vf_live_blocks() > base_blocks || vf_live_bytes() > base_bytes))
            vf_violation("reset-leaves-allocations", "after a topology Reset %u blocks (%llu bytes) remain allocated; the per-interface record of a fresh responder is %u block(s), %llu bytes", vf_live_blocks(), (unsigned long long)vf_live_bytes(), base_blocks, (unsigned long long)base_bytes);
        if (vf_live_bytes() > RETAIN_BOUND)
            vf_violation("retained-memory-exceeds-bound", "%llu bytes retained between frames and still growing with the history (bound used: 256 KiB + icon)", (unsigned long long)vf_live_bytes());
        if (vf_live_bytes() > max_live_bytes) max_live_bytes = vf_live_bytes();
        if (vf_live_blocks() > max_live_blocks) max_live_blocks = vf_live_blocks();
    }
    M.first_frame_seen = 1;
}

static int enabled(int ev) {
    if (ev == E_BG1 || ev == E_BG2) return A.b == 1 && mode == 7;
    if (ev == E_DUP_KIND) return mode == 7 && M.nout > 0;
    if (mode == 19) return !(ev == E_QUERY_HI || ev == E_OTHER2 || ev == E_RESET1 || ev == E_REOBS_LAST);   /* retention does not depend on sequence numbers */
    if (ev == E_OBSNEW) return M.nout < klimit && !M.reobs;
    if (ev == E_DUP_OLD || ev == E_DUP_NEW) return M.nout > 0;
    if (ev == E_REOBS_LAST) return M.last_rec > 0 && !M.reobs && !has(M.last_rec - 1) && M.nout < klimit;
    return 1;
}
static void ev_name(int ev, char *buf, size_t cap) { snprintf(buf, cap, "%s", ENAME[ev]); }
static void root_setup(void) { memset(&M, 0, sizeof M); }
static uint64_t dbg_hist[4][8];
static void dbg_state(int depth) { (void)depth; int b = M.nout == 0 ? 0 : M.nout < 30 ? 1 : M.nout < 100 ? 2 : 3; int c = (M.last_rec ? 1 : 0) + (M.reobs ? 2 : 0) + ((M.last_rec && !has(M.last_rec - 1)) ? 4 : 0); dbg_hist[b][c]++; }

/* ------------------------------------------------------------------ C07 value sweep
 * Every non-zero 16-bit sequence number of a Query, direct and bridged, with 0 / 1 / 3 / capacity / capacity+2
 * observations outstanding: the closure uses three sequence numbers.  pseudo path: [variant (outstanding index * 2 + bridged), seq] */
static int vq_stage[2], vq_n; static uint64_t vq_cases;
static void vq_prepare(int variant) {
    int cap = (int)capacity(); int counts[5] = {0, 1, 3, cap, cap + 2};
    vf_world_reset(); root_setup(); vf_trace_clear();
    apply(E_DISC);
    for (int i = 0; i < counts[variant / 2]; i++) { vf_trace_clear(); apply(E_OBSNEW); }
    vf_trace_clear();
}
static void vq_query(int variant, int seq) {
    pev q = (variant & 1) ? ev_query(0, ST_M2, ST_BR, (uint16_t)seq) : ev_query(0, ST_M1, ST_M1, (uint16_t)seq);
    vf_trace_clear(); drv_linux(&q, 0); oracle_query(&q); vq_cases++;
    if (A.verbose) { char nm[160]; pev_name(&q, nm, sizeof nm); printf("    %s answered with %d frame(s)\n", nm, tr_sends()); }
}
static void vq_name(int ev, char *b, size_t cap) { snprintf(b, cap, "arg(%d)", ev); }
static void vq_apply(int ev) { vq_stage[vq_n++] = ev; if (vq_n == 2) { vq_n = 0; vq_prepare(vq_stage[0]); vq_query(vq_stage[0], vq_stage[1]); } }
static void vq_root(void) { vq_n = 0; }
static e1_cfg vqcfg = { .nev = 1 << 16, .ev_name = vq_name, .apply = vq_apply, .root_setup = vq_root };
static void run_vq(void) {
    static int p[2];
    for (int variant = 0; variant < 10; variant++) {
        vq_prepare(variant);
        vf_snap *s = vf_snapshot(&M, sizeof M);
        for (int seq = 1; seq < 65536; seq++) {
            vf_restore(s, &M, sizeof M);
            p[0] = variant; p[1] = seq; e1_manual_path(&vqcfg, p, 2);
            vq_query(variant, seq);
            if ((seq & 0x3FF) == 0) vf_outcome(vf_trace_hash());
        }
        free(s);
    }
    R.evaluations = vq_cases; R.transitions = vq_cases; R.states = 10; R.exhaustive = 1;
    vf_sample("Query value sweep: {0,1,3,capacity,capacity+2} outstanding observations x {direct, bridged} x sequence number 1..65535");
}

/* ------------------------------------------------------------------ C07 address-neighbour stage (mode c07a)
 * Observations are keyed by 48-bit addresses.  Base observation: Probe(real source S, Ethernet source S, to us).
 * kind 0: second frame = the same with ONE bit of the real destination flipped (48): it is for another station -> 1 entry
 * kind 1: one bit of the real source flipped (48): a distinct observation -> 2 entries, each as received
 * kind 2: one bit of the Ethernet source flipped (48): a distinct observation -> 2 entries
 * kind 3: identical (1): a duplicate -> 1 entry.          x 2 base source addresses x 2 own addresses.
 * pseudo path: [address set (0..3), kind, bit] */
static int va_stage[3], va_n; static uint64_t va_cases;
static void va_case(int aset, int kind, int bit) {
    static const uint8_t own1[6] = {0x00, 0x50, 0xf2, 0x12, 0x34, 0x56}, src1[6] = {0xfe, 0xff, 0x80, 0xff, 0xff, 0xfe}, src0[6] = {0x00, 0x50, 0x56, 0x00, 0x00, 0x10};
    uint8_t keep[6]; memcpy(keep, W.iface[0].mac, 6);
    if (aset & 1) memcpy(W.iface[0].mac, own1, 6);
    const uint8_t *S = (aset & 2) ? src1 : src0; const uint8_t *own = W.iface[0].mac;
    vf_world_reset(); root_setup(); vf_trace_clear();
    pev d = ev_discover(0, ST_M1, ST_M1, 0x1234, 1); drv_linux(&d, 0);
    uint8_t f[64], rs[6], es[6], rd[6];
    fb_base(f, own, S, 0, 0x04, own, S, 0); memset(W.iface[0].recv, 0, W.iface[0].recv_prev_len); drv_linux_deliver(0, f, 32);
    memcpy(rs, S, 6); memcpy(es, S, 6); memcpy(rd, own, 6);
    if (kind == 0) rd[bit / 8] ^= (uint8_t)(1u << (bit % 8));
    if (kind == 1) rs[bit / 8] ^= (uint8_t)(1u << (bit % 8));
    if (kind == 2) es[bit / 8] ^= (uint8_t)(1u << (bit % 8));
    if (kind == 4) { rs[5] ^= 0x01; memcpy(es, own, 6); }      /* the mapper chose OUR address as the frame's Ethernet source: still an observation of another station */
    fb_base(f, own, es, 0, 0x04, rd, rs, 0); memset(W.iface[0].recv, 0, W.iface[0].recv_prev_len); drv_linux_deliver(0, f, 32);
    pev q = ev_query(0, ST_M1, ST_M1, 0x0101); vf_trace_clear(); drv_linux(&q, 0);
    va_cases++;
    static const char *KN[5] = {"real destination", "real source", "Ethernet source", "nothing (duplicate)", "Ethernet source (= our own address) and real source"};
    int want = (kind == 1 || kind == 2 || kind == 4) ? 2 : 1;
    const vf_trec *t = tr_send(0);
    if (tr_sends() != 1 || t->len < 34 || tr_bytes(t)[17] != 0x07) { vf_violation("query:not-a-queryresp", "address stage: the Query was not answered with one QueryResp"); memcpy(W.iface[0].mac, keep, 6); return; }
    unsigned cnt = (unsigned)(((tr_bytes(t)[32] << 8) | tr_bytes(t)[33]) & 0x3FFF);
    if (A.verbose) printf("    own %02x:..:%02x, base source %02x:..:%02x, second frame differs in bit %d of the %s -> %u descriptors\n", own[0], own[5], S[0], S[5], bit, KN[kind], cnt);
    if (cnt != (unsigned)want || t->len != 34 + 20 * cnt) {
        char sig[96]; snprintf(sig, sizeof sig, "query:address-neighbour:%s", kind == 0 ? "frame-for-another-station-recorded-or-ours-lost" : kind == 3 ? "duplicate" : cnt < (unsigned)want ? "distinct-observations-merged" : "extra");
        vf_violation(sig, "two Probes, the second differing from the first in bit %d of the %s: QueryResp lists %u observations, expected %d", bit, KN[kind], cnt, want);
    } else {
        /* each entry as received */
        int ok0 = 0, ok1 = want == 1;
        for (unsigned i = 0; i < cnt; i++) { const uint8_t *e = tr_bytes(t) + 34 + 20 * i; if (!memcmp(e + 2, S, 6) && !memcmp(e + 8, S, 6) && !memcmp(e + 14, own, 6)) ok0 = 1; if (want == 2 && !memcmp(e + 2, rs, 6) && !memcmp(e + 8, es, 6) && !memcmp(e + 14, own, 6)) ok1 = 1; }
        if (!ok0 || !ok1) vf_violation("query:invented-or-distorted-observation", "address stage (bit %d of the %s): the QueryResp entries are not the frames as received", bit, KN[kind]);
    }
    vf_outcome(vf_hash64(&cnt, sizeof cnt, (uint64_t)kind));
    memcpy(W.iface[0].mac, keep, 6);
}
static void va_name(int ev, char *b, size_t cap) { snprintf(b, cap, "arg(%d)", ev); }
static void va_apply(int ev) { va_stage[va_n++] = ev; if (va_n == 3) { va_n = 0; va_case(va_stage[0], va_stage[1], va_stage[2]); } }
static void va_root(void) { va_n = 0; memset(&M, 0, sizeof M); }
static e1_cfg vacfg = { .nev = 1 << 16, .ev_name = va_name, .apply = va_apply, .root_setup = va_root };
static void run_va(void) {
    static int p[3];
    for (int aset = 0; aset < 4; aset++) for (int kind = 0; kind < 5; kind++) for (int bit = 0; bit < (kind >= 3 ? 1 : 48); bit++) { p[0] = aset; p[1] = kind; p[2] = bit; e1_manual_path(&vacfg, p, 3); va_case(aset, kind, bit); }
    R.evaluations = va_cases * 4; R.transitions = va_cases * 4; R.states = 4; R.exhaustive = 1;
    vf_sample("address-neighbour stage: 2 own x 2 source addresses x {one bit of real destination / real source / Ethernet source flipped (48 each), exact duplicate, Ethernet source = our own address}");
}

/* ------------------------------------------------------------------ C02 flood-and-drain (mode c02f)
 * Directed histories beyond the closure's reach: a Discover, n observations with pairwise distinct sources (n at and beyond
 * the responder's see-list bound 1024), then Queries until the 'more' flag clears (at most 120): every QueryResp must be
 * well-formed (its length is what its count says), solicited, and the sequence must terminate.  pseudo path: [n] */
static uint64_t fd_frames;
static void fd_case(int n) {
    vf_world_reset(); root_setup(); vf_trace_clear();
    apply(E_DISC);
    for (int k = 0; k < n; k++) { vf_trace_clear(); send_obs(k, 1); if (tr_sends()) vf_violation("unsolicited:observation-answered", "observation %d made the responder transmit", k); }
    int more = 1, rounds = 0; unsigned total = 0;
    while (more && rounds < 120) {
        pev q = ev_query(0, ST_M1, ST_M1, (uint16_t)(0x300 + rounds)); vf_trace_clear(); drv_linux(&q, 0); rounds++; fd_frames++;
        oracle_wellformed(0);
        if (tr_sends() != 1) { vf_violation("unsolicited:query-frame-count", "Query #%d after %d observations answered with %d frames", rounds, n, tr_sends()); break; }
        const vf_trec *t = tr_send(0);
        if (t->len < 34 || tr_bytes(t)[17] != 0x07) { vf_violation("malformed:not-a-queryresp", "Query #%d after %d observations answered with opcode 0x%02x, %u bytes", rounds, n, t->len >= 18 ? tr_bytes(t)[17] : 0, t->len); break; }
        unsigned field = (unsigned)((tr_bytes(t)[32] << 8) | tr_bytes(t)[33]), cnt = field & 0x3FFF; more = (field & 0x8000) != 0;
        if (t->len != 34 + 20 * cnt) vf_violation("malformed:queryresp-length-vs-count", "after %d observations, QueryResp #%d announces %u descriptors but is %u bytes long (%u expected)", n, rounds, cnt, t->len, 34 + 20 * cnt);
        if (more && cnt == 0) { vf_violation("malformed:queryresp-more-without-progress", "after %d observations, QueryResp #%d sets 'more' but carries nothing", n, rounds); break; }
        total += cnt;
        if (A.verbose) printf("    QueryResp #%d: %u descriptors, more=%d, %u bytes\n", rounds, cnt, more, t->len);
    }
    if (more) vf_violation("malformed:queryresp-more-never-clears", "after %d observations 120 Queries were answered with 'more' set", n);
    vf_outcome(vf_hash64(&total, sizeof total, (uint64_t)n));
}
static void fd_name(int ev, char *b, size_t cap) { snprintf(b, cap, "flood of %d observations, then Queries until 'more' clears", ev); }
static void fd_apply(int ev) { fd_case(ev); }
static e1_cfg fdcfg = { .nev = 1 << 16, .ev_name = fd_name, .apply = fd_apply, .root_setup = root_setup };
static void run_fd(void) {
    static const int NS[6] = {1, 1023, 1024, 1025, 1030, 1100};
    static int p[1];
    for (int i = 0; i < 6; i++) { p[0] = NS[i]; e1_manual_path(&fdcfg, p, 1); fd_case(NS[i]); }
    R.evaluations = fd_frames; R.transitions = fd_frames; R.states = 6; R.exhaustive = 1;
    vf_sample("flood-and-drain: Discover, n in {1,1023,1024,1025,1030,1100} distinct observations, Queries until 'more' clears: each QueryResp well-formed, one per Query, terminating");
}

/* ------------------------------------------------------------------ C19 pump
 * Directed long histories: every word of length <= L over a macro alphabet (Flood(n) = n fresh observations,
 * Query, bridged Query, quick Reset, icon request, duplicate, Emit) is repeated R times from several start
 * states; the ledger monitors of apply() (retained bytes <= 256 KiB + icon, Reset residue = the measured per-interface record, per-handler
 * retention) run on every frame.  A history in which retention grows with every repetition crosses the
 * byte bound within a few repetitions. */
enum { P_FLOOD_BIG, P_FLOOD_SMALL, P_QUERY, P_QUERY_BR, P_RESET1, P_ICON, P_DUP, P_EMIT, P_NMACRO };
static const char *PNAME[] = {"Flood(1100 new observations)", "Flood(30 new observations)", "Query", "Query(bridged)", "Reset(tos1)", "QueryLargeTlv(icon)", "ProbeDup", "Emit(1)"};
static int pump_path[64]; static int pump_n;
static void pump_name(int ev, char *b, size_t cap) { if (ev >= 1000) snprintf(b, cap, "start state %d", ev - 1000); else if (ev >= 100) snprintf(b, cap, "repeat x%d", ev - 100); else snprintf(b, cap, "%s", PNAME[ev]); }
static void macro(int m) {
    switch (m) {
        case P_FLOOD_BIG: for (int i = 0; i < 1100; i++) { vf_trace_clear(); apply(E_OBSNEW); } break;
        case P_FLOOD_SMALL: for (int i = 0; i < 30; i++) { vf_trace_clear(); apply(E_OBSNEW); } break;
        case P_QUERY: vf_trace_clear(); apply(E_QUERY); break;
        case P_QUERY_BR: vf_trace_clear(); apply(E_QUERY_BR); break;
        case P_RESET1: vf_trace_clear(); apply(E_RESET1); break;
        case P_ICON: vf_trace_clear(); apply(E_QLT_ICON); break;
        case P_DUP: vf_trace_clear(); apply(E_DUP_NEW); break;
        case P_EMIT: vf_trace_clear(); apply(E_EMIT); break;
    }
}
static int pump_stage[8], pump_ns;
static void pump_apply(int ev) {        /* replay: [1000+start, macros..., 100+reps] */
    if (ev >= 1000) { if (ev - 1000 >= 1) { vf_trace_clear(); apply(E_DISC); } if (ev - 1000 >= 2) { vf_trace_clear(); apply(E_QLT_ICON); } pump_ns = 0; return; }
    if (ev < 100) { pump_stage[pump_ns++] = ev; return; }
    for (int r = 0; r < ev - 100; r++) { for (int i = 0; i < pump_ns; i++) macro(pump_stage[i]); printf("    after repetition %d: %u blocks, %llu bytes retained\n", r + 1, vf_live_blocks(), (unsigned long long)vf_live_bytes()); }
}
static e1_cfg pumpcfg;
static void run_pump(const e1_cfg *base) {
    (void)base;
    int L = vf_thorough() ? 3 : 2, Rr = vf_thorough() ? 8 : 5;
    uint64_t words = 0, frames = 0;
    for (int start = 0; start < 3; start++) for (int len = 1; len <= L; len++) {
        int nw = 1; for (int i = 0; i < len; i++) nw *= P_NMACRO;
        for (int w = 0; w < nw; w++) {
            int word[3], x = w, has_flood = 0; for (int i = 0; i < len; i++) { word[i] = x % P_NMACRO; x /= P_NMACRO; if (word[i] <= P_FLOOD_SMALL) has_flood = 1; }
            if (!has_flood) continue;                 /* without new observations nothing can accumulate beyond one icon */
            vf_world_reset(); root_setup();
            pump_n = 0; pump_path[pump_n++] = 1000 + start; for (int i = 0; i < len; i++) pump_path[pump_n++] = word[i]; pump_path[pump_n++] = 100 + Rr;
            e1_manual_path(&pumpcfg, pump_path, pump_n);
            if (start >= 1) { vf_trace_clear(); apply(E_DISC); } if (start >= 2) { vf_trace_clear(); apply(E_QLT_ICON); }
            uint64_t v0 = vf_violation_events; uint64_t prev = 0; int grew = 0;
            /* Rr repetitions; a history whose retention grew on each of the last three is pumped on (up to 24) so that it crosses the bound */
            for (int r = 0; r < 24 && vf_violation_events == v0; r++) {
                if (r >= Rr && grew < 3) break;
                for (int i = 0; i < len; i++) { macro(word[i]); frames += word[i] == P_FLOOD_BIG ? 1100 : word[i] == P_FLOOD_SMALL ? 30 : 1; }
                grew = vf_live_bytes() > prev ? grew + 1 : 0; prev = vf_live_bytes();
            }
            words++;
            uint32_t o[2] = { vf_live_blocks(), (uint32_t)w }; vf_outcome(vf_hash64(o, sizeof o, 6));
            if (vf_live_bytes() > max_live_bytes) max_live_bytes = vf_live_bytes();
        }
        if (vf_violation_events && vf_now_s() - vf_first_violation_t > VF_GRACE_AFTER_VIOLATION_S) break;
    }
    R.evaluations = frames; R.transitions = frames; R.states = words; R.exhaustive = 1;
    vf_extra("pump", "%llu cyclic histories (words of length <= %d over %d macro events containing a flood, x %d repetitions, 3 start states), %llu frames; largest retention %llu bytes", (unsigned long long)words, L, P_NMACRO, Rr, (unsigned long long)frames, (unsigned long long)max_live_bytes);
    vf_sample("start: after Discover ; [Flood(1100 new observations) ; Query] x %d: retained bytes must stay <= 256 KiB + icon on every frame", Rr);
}

/* ------------------------------------------------------------------ C19 with several interfaces
 * Three interfaces served by one responder; per interface: a fresh observation (at most 2 outstanding), Query,
 * topology Reset, icon request, Discover.  The reference model knows exactly what may be retained
 * (per interface seen: the record; its outstanding observations; its cached icon), and the ledger must agree
 * after every frame - retained memory is a function of the state, not of the history. */
#define NIF 3
static struct { uint8_t seen[NIF], nodes[NIF], icon[NIF]; } MM;
static const char *MNAME[5] = {"fresh observation", "Query", "Reset(tos0)", "QueryLargeTlv(icon)", "Discover"};
static void mm_name(int ev, char *b, size_t cap) { snprintf(b, cap, "if%d: %s", ev / 5, MNAME[ev % 5]); }
static int mm_enabled(int ev) { return ev % 5 != 0 || MM.nodes[ev / 5] < 2; }
static void mm_root(void) { memset(&MM, 0, sizeof MM); }
static void mm_apply(int ev) {
    int i = ev / 5, k = ev % 5; uint8_t f[64]; const uint8_t *own = W.iface[i].mac;
    vf_iface *fi = &W.iface[i]; memset(fi->recv, 0, fi->recv_prev_len);
    switch (k) {
        case 0: { uint8_t real[6], eth[6]; obs_addr(MM.nodes[i] + 10 * i, real, eth); fb_base(f, own, eth, 0, 0x04, own, real, 0); drv_linux_deliver(i, f, 32); MM.nodes[i]++; break; }
        case 1: { pev q = ev_query(0, ST_M1, ST_M1, 7); drv_linux(&q, i); MM.nodes[i] = 0; break; }
        case 2: { pev r = ev_reset(0, ST_M1); drv_linux(&r, i); MM.nodes[i] = 0; MM.icon[i] = 0; break; }
        case 3: { pev q = ev_qlt(0, ST_M1, ST_M1, 5, 0x0E, 0); drv_linux(&q, i); MM.icon[i] = 1; break; }
        case 4: { pev d = ev_discover(0, ST_M1, ST_M1, 0x1234, 1); drv_linux(&d, i); break; }
    }
    MM.seen[i] = 1;
    uint32_t expect = 0; for (int j = 0; j < NIF; j++) expect += MM.seen[j] * base_blocks + MM.nodes[j] + MM.icon[j];
    if (vf_live_blocks() > expect) {
        /* more than one block per record / observation / icon: legitimate retained state only if topology Resets on every interface give it back */
        uint32_t had = vf_live_blocks();
        vf_snap *sn = vf_snapshot(&MM, sizeof MM);
        uint32_t seen = 0; for (int j = 0; j < NIF; j++) if (MM.seen[j]) { pev r = ev_reset(0, ST_M1); drv_linux(&r, j); seen++; }
        uint32_t residue = vf_live_blocks();
        vf_restore(sn, &MM, sizeof MM); free(sn);
        if (residue > seen * base_blocks) {
            char nm[64]; mm_name(ev, nm, sizeof nm);
            vf_violation("multi-interface:retention-exceeds-state", "after [%s]: %u blocks are allocated, the responder's state accounts for %u (per interface seen: the record, its outstanding observations, its cached icon), and topology Resets on all %u interfaces still leave %u blocks (%u records expected)", nm, had, expect, seen, residue, seen * base_blocks);
        }
    }
}

int main(int argc, char **argv) {
    const char *prop = "C07";
    for (int i = 1; i + 1 < argc; i++) if (!strcmp(argv[i], "--mode")) { if (!strncmp(argv[i + 1], "c19", 3)) prop = "C19"; if (!strcmp(argv[i + 1], "c02o") || !strcmp(argv[i + 1], "c02f")) prop = "C02"; }
    vf_parse_args(argc, argv, prop);
    mode = !strncmp(A.mode, "c19", 3) ? 19 : (!strcmp(A.mode, "c02o") || !strcmp(A.mode, "c02f")) ? 2 : 7;
    int pump = !strcmp(A.mode, "c19pump");
    vf_world_init(A.mtu, A.wifi, (uint8_t)A.fill);
    klimit = mode != 19 ? 300 : KMAX - 8;
    if (mode == 7 && A.b == 2) W.host.fail = 0xFFFFFFFFu;      /* the host's icon / name / hardware-ID getters fail: large-property requests in between must not disturb the observations */
    measure_baseline();
    if (A.a > 0) klimit = (int)A.a;
    e1_cfg cfg = { .nev = E_NEV, .ev_name = ev_name, .apply = apply, .enabled = enabled, .root_setup = root_setup, .model = &M, .model_size = sizeof M,
                   .deadline_s = A.deadline, .max_depth = mode == 19 ? 1400 : 0, .prune_on_violation = 1, .on_new_state = getenv("VF_DBG") ? dbg_state : NULL };
    if (!strcmp(A.mode, "c19multi")) cfg = (e1_cfg){ .nev = 5 * NIF, .ev_name = mm_name, .apply = mm_apply, .enabled = mm_enabled, .root_setup = mm_root, .model = &MM, .model_size = sizeof MM, .deadline_s = A.deadline, .prune_on_violation = 1 };
    pumpcfg = (e1_cfg){ .nev = 2000, .ev_name = pump_name, .apply = pump_apply, .root_setup = root_setup };
    int vq = !strcmp(A.mode, "c07v"), va = !strcmp(A.mode, "c07a"), fd = !strcmp(A.mode, "c02f");
    if (A.replay) { A.verbose = 1; return e1_replay_file(fd ? &fdcfg : va ? &vacfg : vq ? &vqcfg : pump ? &pumpcfg : &cfg, A.replay); }
    double t0 = vf_now_s();
    e1_stats st;
    if (pump) { run_pump(&cfg); R.wall_s = vf_now_s() - t0; vf_write_results(); return 0; }
    if (vq) { run_vq(); R.wall_s = vf_now_s() - t0; vf_write_results(); return 0; }
    if (va) { run_va(); R.wall_s = vf_now_s() - t0; vf_write_results(); return 0; }
    if (fd) { run_fd(); R.wall_s = vf_now_s() - t0; vf_write_results(); return 0; }
    e1_run(&cfg, &st);
    if (mode == 19) {
        vf_extra("max_retained", "%llu bytes in %llu blocks over all %llu reachable states", (unsigned long long)max_live_bytes, (unsigned long long)max_live_blocks, (unsigned long long)st.states);
        if (!st.fixpoint) {
            /* the reachable state set did not close: pump the generator and look for strictly growing retention */
            vf_world_reset(); root_setup();
            static int path[4200]; int n = 0; uint32_t last = 0; int grew = 0;
            for (int i = 0; i < 4096; i++) {
                path[n++] = E_OBSNEW; e1_manual_path(&cfg, path, n);
                vf_trace_clear(); send_obs(i, 1);
                if (vf_live_blocks() > last) { grew++; last = vf_live_blocks(); }
            }
            if (grew >= 4000) vf_violation("unbounded-retention:observation-list", "4096 Probes with pairwise distinct sources and no Query: live allocations grow with every frame (%u blocks, %llu bytes after 4096 frames); retained memory has no bound", vf_live_blocks(), (unsigned long long)vf_live_bytes());
            vf_extra("pump", "4096 generator steps, retention grew on %d of them", grew);
        }
    }
    if (getenv("VF_DBG")) for (int b = 0; b < 4; b++) { for (int c = 0; c < 8; c++) fprintf(stderr, "%llu ", (unsigned long long)dbg_hist[b][c]); fprintf(stderr, "\n"); }
    R.states = st.states; R.transitions = st.transitions; R.evaluations = st.transitions; R.max_depth = st.max_depth;
    R.fixpoint = st.fixpoint; R.exhaustive = st.fixpoint; R.cap_hit = st.cap;
    vf_extra("pruned", "%llu successors of violating transitions not expanded", (unsigned long long)st.pruned);
    vf_extra("alphabet", "%d events; generator bound %d outstanding observations; frame capacity %zu descriptors", E_NEV, klimit, capacity());
    R.wall_s = vf_now_s() - t0;
    vf_write_results();
    return 0;
}
