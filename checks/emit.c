/* C06 (an Emit is executed descriptor by descriptor and then acknowledged) and
 * C10 (probes emitted by one responder are observed by a peer responder). */
#include "../mc/oracles.h"

#include <stdlib.h>
#include <string.h>

static int mode;   /* 6 or 10 */

/* =================================================================== C06 */
static struct m6 { arb arb; uint8_t apparent; } M6;
static pev SV[64]; static int NSV;                 /* state alphabet */
static const uint16_t SEQS[4] = {1, 0x0102, 0xFFFF, 0x0100};   /* 0x0100: low byte zero */
static const uint8_t PAUSES[3] = {0, 1, 255};
static const uint8_t PAIRS[3][2] = {{ST_S0, ST_PEER}, {ST_OWN, ST_S1}, {ST_S1, ST_BC}};
static size_t eff_mtu(void) { size_t m = W.iface[0].mtu; return W.env.mtu_alt ? (m == 1500 ? 9216 : 1500) : m; }      /* what the MTU getter answers now */
static size_t fit(void) { return (eff_mtu() - 34) / 14; }

#define EMIT_BASE 1000
static int emit_code(int fam, int seqi, int n, int idx) { return EMIT_BASE + (((fam * 4 + seqi) * 1024 + n) * 8192 + idx); }
static void emit_decode(int code, int *fam, int *seqi, int *n, int *idx) {
    int c = code - EMIT_BASE; *idx = c % 8192; c /= 8192; *n = c % 1024; c /= 1024; *seqi = c % 4; *fam = c / 4;
}
/* family 6: one Probe descriptor, the sequence number is n * 8192 + idx (every 16-bit value) */
static uint16_t seq_of(int code) { int fam, seqi, n, idx; emit_decode(code, &fam, &seqi, &n, &idx); return fam == 6 ? (uint16_t)(n * 8192 + idx) : SEQS[seqi]; }
static const uint16_t OVER[5] = {0 /* fit+1 */, 1 /* 2*fit */, 0x7FFF, 0x8000, 0xFFFF};

static fb_desc DL[1024]; static int DLn; static unsigned declared;
static void desc_set(fb_desc *d, int kind, int pause, int pair) {
    d->type = (uint8_t)kind; d->pause = (uint8_t)pause;
    memcpy(d->src, pev_addr(PAIRS[pair][0], 0), 6); memcpy(d->dst, pev_addr(PAIRS[pair][1], 0), 6);
}
/* family 7: one descriptor, pause = idx (0..255), address pair n (0..8), kind = idx parity */
static const uint8_t PAIRS7[9][2] = {{ST_S0, ST_PEER}, {ST_OWN, ST_S1}, {ST_S1, ST_BC}, {ST_ZERO, ST_ZERO}, {ST_BC, ST_BC}, {ST_OWN, ST_OWN}, {ST_PEER, ST_OWN}, {ST_M1, ST_M1}, {ST_BR, ST_S0}};
static void build_list(int fam, int n, int idx) {
    if (fam == 7) {
        DLn = 1; declared = 1; DL[0].type = (uint8_t)(idx & 1); DL[0].pause = (uint8_t)idx;
        memcpy(DL[0].src, pev_addr(PAIRS7[n][0], 0), 6); memcpy(DL[0].dst, pev_addr(PAIRS7[n][1], 0), 6);
        return;
    }
    if (fam == 6) { n = 1; idx = 0; fam = 0; }
    DLn = n; declared = (unsigned)n;
    for (int i = 0; i < n; i++) {
        switch (fam) {
            case 0: { int d = idx; for (int k = 0; k < i; k++) d /= 18; d %= 18; desc_set(&DL[i], d % 2, PAUSES[(d / 2) % 3], (d / 6) % 3); break; }
            case 1: desc_set(&DL[i], 1, 1, 0); break;
            case 2: desc_set(&DL[i], 0, 0, 1); break;
            case 3: case 5: desc_set(&DL[i], i % 2, PAUSES[i % 3], (i / 2) % 3); break;
            case 4: if (i == idx) desc_set(&DL[i], 0, 255, 1); else desc_set(&DL[i], 1, 0, 0); break;
        }
    }
    if (fam == 5) declared = idx == 0 ? (unsigned)fit() + 1 : idx == 1 ? 2u * (unsigned)fit() : OVER[idx];
}

static void s_name(int ev, char *buf, size_t cap) {
    if (ev < EMIT_BASE) { pev_name(&SV[ev], buf, cap); return; }
    int fam, seqi, n, idx; emit_decode(ev, &fam, &seqi, &n, &idx);
    static const char *fn[] = {"tuple", "all-Probe", "all-Train", "alternating", "position-sweep", "over-declared", "sequence-number-sweep", "pause-and-address-sweep", "not-addressed-to-us", "mtu-changed-between-two-emits"};
    if (fam == 6) { snprintf(buf, cap, "Emit(from active mapper,seq=0x%04x,family=%s,n=1)", seq_of(ev), fn[fam]); return; }
    snprintf(buf, cap, "Emit(from active mapper,seq=0x%04x,family=%s,n=%d,idx=%d)", SEQS[seqi], fn[fam], n, idx);
}

static int opened_only;      /* the family runs in a state whose session was opened by a command (see on_new_state6) */
static void oracle_emit(int code, uint16_t seq) {
    char nm[160]; s_name(code, nm, sizeof nm);
    const uint8_t *own = W.iface[0].mac;
    if (declared > (unsigned)DLn) {         /* over-declared: only the bound on the number of frames is stated */
        if (W.sends_total > fit() + 1)
            vf_violation("emit:over-declared-count-amplifies", "%s declares %u descriptors; %u frames were transmitted, a maximum-size Emit may request at most %zu Probe/Train frames plus one ACK", nm, declared, W.sends_total, fit());
        return;
    }
    if (W.trace_overflow) vf_harness_error("trace overflow in C06");
    /* expected log: (sleep p_i, send frame_i) x n, then ACK */
    uint32_t ti = 0;
    for (int i = 0; i < DLn; i++) {
        if (ti >= W.ntrace || W.trace[ti].kind != VF_T_SLEEP || W.trace[ti].len != DL[i].pause) {
            vf_violation("emit:pause", "%s: descriptor %d: expected a wait of %u ms before the frame, log entry %u is %s(%u)", nm, i, DL[i].pause, ti,
                         ti < W.ntrace ? (W.trace[ti].kind == VF_T_SLEEP ? "sleep" : "send") : "missing", ti < W.ntrace ? W.trace[ti].len : 0);
            return;
        }
        ti++;
        if (ti >= W.ntrace || W.trace[ti].kind != VF_T_SEND) { vf_violation("emit:frame-missing", "%s: descriptor %d: no frame transmitted", nm, i); return; }
        const vf_trec *t = &W.trace[ti]; wd_frame f;
        if (t->len != 32 || wd_decode(tr_bytes(t), t->len, &f)) { vf_violation("emit:frame-length", "%s: descriptor %d: frame of %u bytes", nm, i, t->len); return; }
        uint8_t expop = DL[i].type == 1 ? 0x04 : 0x03;
        if (f.opcode != expop) { vf_violation("emit:kind", "%s: descriptor %d asks for %s, opcode 0x%02x sent", nm, i, DL[i].type == 1 ? "Probe" : "Train", f.opcode); return; }
        if (memcmp(f.ethsrc, DL[i].src, 6) || memcmp(f.ethdst, DL[i].dst, 6)) { vf_violation("emit:ethernet-addresses", "%s: descriptor %d: Ethernet source/destination are not the descriptor's (order or content)", nm, i); return; }
        if (memcmp(f.realsrc, own, 6)) { vf_violation("emit:real-source", "%s: descriptor %d: real source is not the responder's own address", nm, i); return; }
        ti++;
    }
    if (ti >= W.ntrace || W.trace[ti].kind != VF_T_SEND) { vf_violation("emit:ack-missing", "%s: no ACK after the %d frames", nm, DLn); return; }
    const vf_trec *t = &W.trace[ti]; wd_frame f; wd_decode(tr_bytes(t), t->len, &f);
    if (t->len != 32 || f.opcode != 0x05) { vf_violation("emit:ack-malformed", "%s: frame after the probes has opcode 0x%02x, %u bytes", nm, f.opcode, t->len); return; }
    if (f.seq != seq) vf_violation("emit:ack-sequence", "%s: ACK carries sequence number 0x%04x", nm, f.seq);
    /* session opened by a command: which next hop the responder remembers for that station is not stated - only the real destination is checked */
    if ((!opened_only && memcmp(f.ethdst, pev_addr(M6.apparent, 0), 6)) || memcmp(f.realdst, pev_addr(M6.arb.v, 0), 6))
        vf_violation("emit:ack-destination", "%s: ACK not addressed to the mapper (Ethernet %02x:..:%02x, real %02x:..:%02x)", nm, f.ethdst[0], f.ethdst[5], f.realdst[0], f.realdst[5]);
    if (memcmp(f.ethsrc, own, 6) || memcmp(f.realsrc, own, 6)) vf_violation("emit:ack-source", "%s: ACK not sourced from the own address", nm);
    ti++;
    if (ti != W.ntrace) vf_violation("emit:extra-port-calls", "%s: %u port calls after the ACK", nm, W.ntrace - ti);
}

/* family 8: an Emit from the active mapper that is not addressed to us at the LLTD level (idx: real destination broadcast /
 * another station / zero, Ethernet destination ours or broadcast) - whatever the responder transmits for it carries ITS OWN
 * address as real source */
static const uint8_t F8_RDST[3] = {ST_BC, ST_PEER, ST_ZERO};
/* family 9: the interface's MTU is changed between two Emits of one session (jumbo frames switched on / off, no Reset): a
 * first one-descriptor Emit, the change, then an Emit with as many descriptors as the NEW MTU allows (idx 0) or an
 * over-declared count (idx 1), judged against the new MTU */
static void do_emit(int code);
static void do_emit9(int idx) {
    do_emit(emit_code(0, 0, 1, 0));
    W.env.mtu_alt ^= 1u;
    do_emit(idx == 0 ? emit_code(1, 1, (int)fit(), 0) : emit_code(5, 1, (int)fit(), 4));
}
static void do_emit(int code) {
    int fam, seqi, n, idx; emit_decode(code, &fam, &seqi, &n, &idx);
    if (fam == 9) { do_emit9(idx); return; }
    build_list(fam == 8 ? 0 : fam, fam == 8 ? 1 : n, fam == 8 ? 0 : idx);
    static uint8_t buf[VF_MAXMTU + 64];
    const uint8_t *edst = W.iface[0].mac, *rdst = W.iface[0].mac;
    if (fam == 8) { rdst = vf_station[F8_RDST[idx % 3]]; if (idx >= 3) edst = vf_station[ST_BC]; }
    size_t len = fb_emit(buf, edst, pev_addr(M6.apparent, 0), rdst, pev_addr(M6.arb.v, 0), 0, seq_of(code), (uint16_t)declared, DL, DLn);
    vf_iface *fi = &W.iface[0]; memset(fi->recv, 0, fi->recv_prev_len > len ? fi->recv_prev_len : len);
    vf_trace_clear();
    drv_linux_deliver(0, buf, len);
    if (!(fam == 8 && W.ntrace == 0)) oracle_emit(code, seq_of(code));      /* an Emit for somebody else may be ignored; if it is executed, it is executed as ours */
    if (fam != 6 || (idx & 0x3FF) == 0) vf_outcome(vf_trace_hash());
}

static void s_apply(int ev) {
    if (ev >= EMIT_BASE) { if (M6.arb.v != ARB_NONE && M6.arb.v != ARB_TOP && !(M6.arb.v & ARB_OPENED) && M6.apparent != 0xFF) do_emit(ev); return; }
    const pev *e = &SV[ev];
    arb before = M6.arb;
    int r = arb_step(&M6.arb, e);
    if (e->opcode == 0 && r == 1 && before.v == ARB_NONE) M6.apparent = e->ethsrc;
    if (e->opcode == 0 && r == 1 && (before.v & ARB_OPENED) && before.v != ARB_TOP) M6.apparent = 0xFF;   /* session opened by a command: which next hop counts is not stated */
    drv_linux(e, 0);
}
static void s_root(void) { M6.arb.v = ARB_NONE; M6.apparent = 0; }

static uint64_t emits_run, states_with_mapper; static uint8_t heavy_done[ST_N][ST_N];
static e1_cfg cfg6;

static void run_family_here(void) {
    vf_path p; e1_current_path(&p);
    static int path[4100]; memcpy(path, p.ev, sizeof(int) * (size_t)p.n);
    vf_snap *s = vf_snapshot(&M6, sizeof M6);
    states_with_mapper++;
    int heavy = !opened_only && !heavy_done[M6.arb.v][M6.apparent]; if (!opened_only) heavy_done[M6.arb.v][M6.apparent] = 1;
    int F = (int)fit();
#define RUN(code) do { vf_restore(s, &M6, sizeof M6); path[p.n] = (code); e1_manual_path(&cfg6, path, p.n + 1); do_emit(code); emits_run++; } while (0)
    for (int seqi = 0; seqi < 4; seqi++) {
        for (int idx = 0; idx < 18; idx++) RUN(emit_code(0, seqi, 1, idx));
        if (opened_only) { if (seqi == 0) for (int k = 0; k < 6; k++) RUN(emit_code(8, 1, 1, k)); continue; }
        for (int idx = 0; idx < 324; idx++) RUN(emit_code(0, seqi, 2, idx));
        if (!heavy) continue;
        if (seqi == 0 || vf_thorough()) for (int idx = 0; idx < 5832; idx++) RUN(emit_code(0, seqi, 3, idx));
        for (int n = 1; n <= F; n++) for (int fam = 1; fam <= 3; fam++) RUN(emit_code(fam, seqi, n, 0));
        int ns[3] = {F, F / 2, 7};
        for (int k = 0; k < 3; k++) { if (ns[k] > 200 && !vf_thorough() && k == 0) continue; for (int i = 0; i < ns[k]; i++) RUN(emit_code(4, seqi, ns[k], i)); }
        for (int o = 0; o < 5; o++) RUN(emit_code(5, seqi, F, o));
    }
    if (heavy) for (int k = 0; k < 2; k++) RUN(emit_code(9, 1, 1, k));      /* MTU changed between two Emits */
    if (heavy) for (int k = 0; k < 6; k++) RUN(emit_code(8, 1, 1, k));      /* real destination broadcast / another station / zero x Ethernet destination ours / broadcast */
    if (heavy) for (int pr = 0; pr < 9; pr++) for (int pz = 0; pz < 256; pz++) RUN(emit_code(7, 1, pr, pz));      /* every pause value x 9 address pairs */
    if (heavy) for (int v = 1; v < 65536; v++) RUN(emit_code(6, 0, v / 8192, v % 8192));      /* every non-zero sequence number, once per (mapper, apparent address) class */
#undef RUN
    free(s);
    e1_manual_path(&cfg6, NULL, 0);
}
/* also in states whose session was opened by a COMMAND of station X (no Discover / Hello yet): X is the only station that can
 * be the mapper there (the arbiter's OPENED|X), and an Emit of X, sent directly, is executed like any other - the small
 * tuples and the misaddressed family only (the model is put on "X is the mapper, directly attached" for the family runs) */
static void on_new_state6(int depth) {
    (void)depth;
    if (M6.arb.v != ARB_NONE && M6.arb.v != ARB_TOP && !(M6.arb.v & ARB_OPENED) && M6.apparent != 0xFF) run_family_here();
    else if (M6.arb.v != ARB_TOP && (M6.arb.v & ARB_OPENED)) {
        struct m6 keep = M6; M6.arb.v = (uint8_t)(keep.arb.v & 0x7F); M6.apparent = M6.arb.v;
        opened_only = 1; run_family_here(); opened_only = 0;
        M6 = keep;
    }
}

static void build_state_alphabet(void) {
    NSV = 0;
    SV[NSV++] = ev_discover(0, ST_M1, ST_M1, 0x1234, 1);
    SV[NSV++] = ev_discover(0, ST_M2, ST_BR, 0x2222, 2);
    SV[NSV++] = ev_discover(1, ST_M3, ST_M3, 0, 0);
    SV[NSV++] = ev_reset(0, ST_M1); SV[NSV++] = ev_reset(1, ST_M2);
    SV[NSV++] = ev_probe(0x04, 0, ST_S0, ST_S0, ST_OWN, ST_OWN);
    SV[NSV++] = ev_query(0, ST_M1, ST_M1, 9);
    SV[NSV++] = ev_query(0, ST_M2, ST_BR, 9);
    SV[NSV++] = ev_qlt(0, ST_M1, ST_M1, 5, 0x0E, 0);
    SV[NSV++] = ev_qlt(1, ST_M2, ST_BR, 6, 0x0E, 0);
    SV[NSV++] = ev_emit1(0, ST_M1, ST_M1, 7, 1, 0, ST_S0, ST_PEER);
    SV[NSV++] = ev_hello(0, ST_PEER, 0x3412);
}

/* =================================================================== C10 */
/* interface 0 = responder A, interface 1 = responder B, one core instance serves both (as in the daemons) */
static struct m10 { uint8_t qn; uint8_t q[3][32]; uint16_t delivered; } M10;   /* delivered: bit (srcidx*2+kind) */
enum { X_DISC_A, X_DISC_A_BR, X_DISC_B, X_DELIVER, X_HELLO_B, X_PROBE_PEER_B, X_QUERY_B, X_QUERY_B_BR, X_RESET_B, X_OTHER_EMITTER_B, X_QRESET_B, X_EMIT_X, X_QLT_B, X_EMIT0 };
static int QCAP = 3;                    /* bound on the in-flight queue (quick tier: 2) */
static int NEMIT; static struct { uint8_t n; uint8_t d[2]; } EM[512];     /* descriptor code: kind | pause<<1 | dstB<<2 | srcA<<3 | srcB<<4 (the mapper may choose ANY Ethernet source, also the observer's own address) */
static const uint8_t *addrA(void) { return W.iface[0].mac; }
static const uint8_t *addrB(void) { return W.iface[1].mac; }

static void dcode(int c, fb_desc *d) {
    d->type = (uint8_t)(c & 1); d->pause = (c & 2) ? 7 : 0;
    memcpy(d->dst, (c & 4) ? addrB() : vf_station[ST_PEER], 6);
    memcpy(d->src, (c & 16) ? addrB() : (c & 8) ? addrA() : vf_station[ST_S0], 6);
    if (c & 32) d->src[0] ^= 0x02;      /* twins of S0: equal in all but the first / the second octet */
    if (c & 64) d->src[1] ^= 0x01;
}
static const uint8_t *src_of_idx(int srcidx) {
    static uint8_t tw[2][6];
    if (srcidx == 1) return addrA();
    if (srcidx == 2) return addrB();
    if (srcidx >= 3) { memcpy(tw[srcidx - 3], vf_station[ST_S0], 6); if (srcidx == 3) tw[0][0] ^= 0x02; else tw[1][1] ^= 0x01; return tw[srcidx - 3]; }
    return vf_station[ST_S0];
}
static const char *SRCNAME[5] = {"S0", "A", "B's own address", "S0 with the first octet changed", "S0 with the second octet changed"};
static int towardsB(int ev) { int n = 0; for (int i = 0; i < EM[ev - X_EMIT0].n; i++) if (EM[ev - X_EMIT0].d[i] & 4) n++; return n; }

static void x_name(int ev, char *buf, size_t cap) {
    static const char *n[] = {"Discover(M1)->A", "Discover(M1 via BR)->A", "Discover(M1)->B", "deliver oldest in-flight frame to B", "Hello(PEER)->B", "Probe(for PEER)->B",
                              "Query(M1)->B", "Query(M1 via BR)->B", "Reset->B", "Train(from responder C, Ethernet source S0 as ordered by the mapper)->B", "Reset(quick discovery)->B",
                              "Emit(M1)->X, a third interface of A's host [Probe p0 S0>PEER]",
                              "QueryLargeTlv(icon, M1)->B while B's icon getter fails"};
    if (ev < X_EMIT0) { snprintf(buf, cap, "%s", n[ev]); return; }
    size_t o = (size_t)snprintf(buf, cap, "Emit(M1)->A[");
    for (int i = 0; i < EM[ev - X_EMIT0].n; i++) {
        int c = EM[ev - X_EMIT0].d[i];
        o += (size_t)snprintf(buf + o, cap - o, "%s%s p%d %s>%s", i ? "; " : "", (c & 1) ? "Probe" : "Train", (c & 2) ? 7 : 0, (c & 32) ? "S0'" : (c & 64) ? "S0''" : (c & 16) ? "B" : (c & 8) ? "A" : "S0", (c & 4) ? "B" : "PEER");
    }
    snprintf(buf + o, cap - o, "]");
}
static int x_enabled(int ev) {
    if (ev == X_EMIT_X) return A.a == 4;
    if (ev == X_QLT_B) return A.a == 3;       /* run 3: the host has no icon (getter fails): a large-property request between observation and Query */      /* the emitting host is multi-homed: it also emits on another interface */
    if (A.a >= 3 && (ev == X_DISC_A_BR || ev == X_QUERY_B_BR || ev == X_HELLO_B || ev == X_PROBE_PEER_B || ev == X_OTHER_EMITTER_B)) return 0;
    if (ev == X_DELIVER) return M10.qn > 0;
    if (ev >= X_EMIT0) return M10.qn + towardsB(ev) <= QCAP;
    return 1;
}
static void deliver_to(int iface, const uint8_t *f, size_t len) { vf_iface *fi = &W.iface[iface]; memset(fi->recv, 0, fi->recv_prev_len); drv_linux_deliver(iface, f, len); }

static void x_apply(int ev) {
    uint8_t f[128]; size_t len;
    switch (ev) {
        case X_DISC_A: case X_DISC_A_BR: case X_DISC_B: {
            pev e = ev_discover(0, ST_M1, ev == X_DISC_A_BR ? ST_BR : ST_M1, 0x1234, 1);
            int ifc = ev == X_DISC_B ? 1 : 0; len = pev_build(&e, ifc, f); deliver_to(ifc, f, len); break; }
        case X_DELIVER: {
            uint8_t fr[32]; memcpy(fr, M10.q[0], 32);
            memmove(M10.q[0], M10.q[1], 64); M10.qn--; memset(M10.q[M10.qn], 0, 32);
            deliver_to(1, fr, 32);
            int srcidx = 0; for (int k = 1; k < 5; k++) if (memcmp(fr + 6, src_of_idx(k), 6) == 0) srcidx = k;
            int kind = fr[17] == 0x04 ? 1 : 0;
            M10.delivered |= (uint16_t)(1u << (srcidx * 2 + kind));
            break; }
        case X_HELLO_B: len = fb_hello(f, vf_station[ST_PEER], 0, 0x3412, vf_station[ST_M1], vf_station[ST_M1]); deliver_to(1, f, len); break;
        case X_PROBE_PEER_B: fb_base(f, vf_station[ST_PEER], vf_station[ST_S1], 0, 0x04, vf_station[ST_PEER], vf_station[ST_S1], 0); deliver_to(1, f, 32); break;
        case X_QUERY_B: case X_QUERY_B_BR: {
            pev q = ev_query(0, ST_M1, ev == X_QUERY_B_BR ? ST_BR : ST_M1, 0x0042);
            len = pev_build(&q, 1, f); q.ethdst = q.realdst = ST_OWN; deliver_to(1, f, len);
            /* oracle: every frame A emitted towards B and delivered since B's last Query/Reset is reported with A as source */
            const vf_trec *t = tr_send(0);
            if (tr_sends() != 1 || t->len < 34 || tr_bytes(t)[17] != 0x07) { vf_violation("peer:query-not-answered", "B did not answer the Query with one QueryResp"); M10.delivered = 0; break; }
            unsigned cnt = (unsigned)(((tr_bytes(t)[32] << 8) | tr_bytes(t)[33]) & 0x3FFF);
            for (int srcidx = 0; srcidx < 5; srcidx++) {
                if (!(M10.delivered & (3u << (srcidx * 2)))) continue;
                const uint8_t *src = src_of_idx(srcidx);
                int found = 0;
                for (unsigned i = 0; i < cnt && 34 + 20 * (i + 1) <= t->len; i++) {
                    const uint8_t *d = tr_bytes(t) + 34 + 20 * i;
                    if (!memcmp(d + 2, addrA(), 6) && !memcmp(d + 8, src, 6) && !memcmp(d + 14, addrB(), 6)) found = 1;
                }
                if (!found) vf_violation("peer-does-not-report-emitted-probe", "responder A emitted a %s towards B (Ethernet source %s), it was delivered unmodified to B, but B's QueryResp (%u descriptors) has no entry with A as real source for it", (M10.delivered & (2u << (srcidx * 2))) ? "Probe" : "Train", SRCNAME[srcidx], cnt);
            }
            M10.delivered = 0; break; }
        case X_OTHER_EMITTER_B:     /* unrelated traffic: a third responder emits towards B with the same spoofed Ethernet source */
            fb_base(f, addrB(), vf_station[ST_S0], 0, 0x03, addrB(), vf_station[ST_PEER], 0); deliver_to(1, f, 32); break;
        case X_QLT_B: { pev e = ev_qlt(0, ST_M1, ST_M1, 5, 0x0E, 0); len = pev_build(&e, 1, f); deliver_to(1, f, len); break; }
        case X_EMIT_X: {      /* served on interface 2 of the same responder process; nothing of it reaches B */
            fb_desc dx; dx.type = 1; dx.pause = 0; memcpy(dx.src, vf_station[ST_S0], 6); memcpy(dx.dst, vf_station[ST_PEER], 6);
            len = fb_emit(f, W.iface[2].mac, vf_station[ST_M1], W.iface[2].mac, vf_station[ST_M1], 0, 0x0055, 1, &dx, 1);
            deliver_to(2, f, len); break; }
        case X_QRESET_B: { pev e = ev_reset(1, ST_M1); len = pev_build(&e, 1, f); deliver_to(1, f, len); break; }     /* the quick-discovery service ends: the topology session's observations stay */
        case X_RESET_B: { pev e = ev_reset(0, ST_M1); len = pev_build(&e, 1, f); deliver_to(1, f, len); M10.delivered = 0; break; }
        default: {
            fb_desc d[2]; int n = EM[ev - X_EMIT0].n;
            for (int i = 0; i < n; i++) dcode(EM[ev - X_EMIT0].d[i], &d[i]);
            len = fb_emit(f, addrA(), vf_station[ST_M1], addrA(), vf_station[ST_M1], 0, 0x0077, (uint16_t)n, d, n);
            deliver_to(0, f, len);
            /* frames A put on the wire with Ethernet destination B go in flight */
            for (uint32_t i = 0; i < W.ntrace; i++) {
                const vf_trec *t = &W.trace[i];
                if (t->kind != VF_T_SEND || t->iface != 0 || t->len != 32) continue;
                const uint8_t *b = tr_bytes(t);
                if (b[17] != 0x03 && b[17] != 0x04) continue;
                if (memcmp(b, addrB(), 6) != 0) continue;
                if (M10.qn < QCAP) memcpy(M10.q[M10.qn++], b, 32);
            }
            break; }
    }
}
static void x_root(void) { memset(&M10, 0, sizeof M10); }

/* ------------------------------------------------------------------ C10 flood
 * Directed histories with many frames in flight: the mapper orders A (MTU 1500) to emit n Probe/Train frames with
 * pairwise distinct mapper-chosen Ethernet sources towards B; all are delivered; B (MTU under test) is queried until
 * its 'more' flag clears; every delivered frame must be reported with A as its real source.
 * Enumerated: B's MTU in every residue mod 20 (+1492, 1500) x n in {capacity-1, capacity, +1, +2, 2*capacity+1}. */
static int fl_path[2];
static void fl_name(int ev, char *b, size_t cap) { snprintf(b, cap, "arg(%d)", ev); }
static int fl_stage[2], fl_ns;
static void flood_case(int mtuB, int code) {
    int n = code % 1000, again = code / 1000;      /* again: after B's first QueryResp A emits its last (1) / first (2) frame once more: it must be reported by a LATER QueryResp */
    vf_world_reset();
    W.iface[0].mtu = 1500; W.iface[1].mtu = (size_t)mtuB;
    uint8_t f[1600]; size_t len;
    pev d = ev_discover(0, ST_M1, ST_M1, 0x1234, 1);
    len = pev_build(&d, 0, f); deliver_to(0, f, len); len = pev_build(&d, 1, f); deliver_to(1, f, len);
    static uint8_t flight[700][32]; int nfl = 0;
    for (int base = 0; base < n; base += 100) {
        int m = n - base > 100 ? 100 : n - base; static fb_desc dl[100];
        for (int i = 0; i < m; i++) { int k = base + i; dl[i].type = (uint8_t)(k & 1); dl[i].pause = 0; uint8_t src[6] = {0x00, 0x50, 0x56, 0x40, (uint8_t)(k >> 8), (uint8_t)k}; memcpy(dl[i].src, src, 6); memcpy(dl[i].dst, addrB(), 6); }
        len = fb_emit(f, addrA(), vf_station[ST_M1], addrA(), vf_station[ST_M1], 0, (uint16_t)(0x100 + base), (uint16_t)m, dl, m);
        vf_trace_clear(); deliver_to(0, f, len);
        for (uint32_t i = 0; i < W.ntrace && nfl < 700; i++) { const vf_trec *t = &W.trace[i]; if (t->kind == VF_T_SEND && t->iface == 0 && t->len == 32 && (tr_bytes(t)[17] == 0x03 || tr_bytes(t)[17] == 0x04) && !memcmp(tr_bytes(t), addrB(), 6)) memcpy(flight[nfl++], tr_bytes(t), 32); }
    }
    for (int i = 0; i < nfl; i++) { vf_trace_clear(); deliver_to(1, flight[i], 32); }
    static uint8_t seen[700]; memset(seen, 0, sizeof seen); int more = 1, rounds = 0; unsigned total = 0;
    while (more && rounds++ < 40) {
        pev q = ev_query(0, ST_M1, ST_M1, (uint16_t)(0x200 + rounds)); len = pev_build(&q, 1, f); vf_trace_clear(); deliver_to(1, f, len);
        const vf_trec *t = tr_send(0);
        if (tr_sends() != 1 || t->len < 34 || tr_bytes(t)[17] != 0x07) { vf_violation("peer:query-not-answered", "B (MTU %d) did not answer Query #%d with one QueryResp", mtuB, rounds); return; }
        unsigned field = (unsigned)((tr_bytes(t)[32] << 8) | tr_bytes(t)[33]), cnt = field & 0x3FFF; more = (field & 0x8000) != 0;
        for (unsigned i = 0; i < cnt && 34 + 20 * (i + 1) <= t->len; i++) {
            const uint8_t *dsc = tr_bytes(t) + 34 + 20 * i;
            if (memcmp(dsc + 2, addrA(), 6) || memcmp(dsc + 14, addrB(), 6) || dsc[8] != 0x00 || dsc[11] != 0x40) continue;
            int k = (dsc[12] << 8) | dsc[13]; if (k < 700) seen[k] = 1;
        }
        total += cnt;
        if (rounds == 1 && again && nfl) { int k = again == 1 ? nfl - 1 : 0; vf_trace_clear(); deliver_to(1, flight[k], 32); seen[k] = 0; more = 1; }
    }
    int missing = 0, first = -1; for (int k = 0; k < nfl; k++) if (!seen[k]) { missing++; if (first < 0) first = k; }
    vf_outcome(vf_hash64(&total, sizeof total, (uint64_t)mtuB));
    if (A.verbose && again) printf("    after B's first QueryResp A emitted its %s frame once more (delivered)\n", again == 1 ? "last" : "first");
    if (A.verbose) printf("    B's MTU %d, %d frames emitted by A and delivered, %u descriptors reported in %d QueryResp frames, %d missing\n", mtuB, nfl, total, rounds, missing);
    if (nfl != n) vf_violation("peer:emitter-count", "A was ordered to emit %d frames towards B and put %d on the wire", n, nfl);
    if (missing) vf_violation("peer-does-not-report-emitted-probe:many-in-flight", "B's MTU %d: A emitted %d frames towards B%s, all were delivered, B was queried until 'more' cleared: %d of them (first: #%d) never appear in a QueryResp with A as real source%s", mtuB, nfl, again ? " and one of them again after B's first QueryResp" : "", missing, first, again ? " (after the repeat)" : "");
}
static void fl_apply(int ev) { fl_stage[fl_ns++] = ev; if (fl_ns == 2) { fl_ns = 0; flood_case(fl_stage[0], fl_stage[1]); } }
static void fl_root(void) { fl_ns = 0; }
static e1_cfg flcfg = { .nev = 1 << 16, .ev_name = fl_name, .apply = fl_apply, .root_setup = fl_root };

int main(int argc, char **argv) {
    const char *prop = "C06";
    for (int i = 1; i + 1 < argc; i++) if (!strcmp(argv[i], "--mode") && !strncmp(argv[i + 1], "c10", 3)) prop = "C10";
    vf_parse_args(argc, argv, prop);
    mode = !strncmp(A.mode, "c10", 3) ? 10 : 6;
    if (!strcmp(A.mode, "c10flood")) {
        vf_world_init(1500, 0, (uint8_t)A.fill);
        if (A.replay) { A.verbose = 1; return e1_replay_file(&flcfg, A.replay); }
        double t0f = vf_now_s(); uint64_t cases = 0;
        static const int extra[2] = {1492, 1500};
        for (int mi = 0; mi < 22; mi++) {
            int mtuB = mi < 20 ? 576 + mi : extra[mi - 20]; int cap = (mtuB - 34) / 20;
            int ns[5] = {cap - 1, cap, cap + 1, cap + 2, 2 * cap + 1};
            for (int k = 0; k < 5; k++) for (int again = 0; again < 3; again++) { fl_path[0] = mtuB; fl_path[1] = ns[k] + 1000 * again; e1_manual_path(&flcfg, fl_path, 2); flood_case(mtuB, fl_path[1]); cases++; }
        }
        R.evaluations = cases; R.states = cases; R.transitions = cases; R.exhaustive = 1; R.wall_s = vf_now_s() - t0f;
        vf_sample("B's MTU 592, A ordered to emit 28 frames (capacity 27 + 1) towards B, all delivered, B queried until 'more' clears: all 28 must be reported with A as source");
        vf_write_results();
        return 0;
    }
    vf_world_init(A.mtu, A.wifi, (uint8_t)A.fill);
    double t0 = vf_now_s();
    e1_stats st;
    if (mode == 6) {
        build_state_alphabet();
        cfg6 = (e1_cfg){ .nev = NSV, .ev_name = s_name, .apply = s_apply, .root_setup = s_root, .model = &M6, .model_size = sizeof M6,
                         .on_new_state = on_new_state6, .deadline_s = A.deadline };
        if (A.replay) { A.verbose = 1; return e1_replay_file(&cfg6, A.replay); }
        e1_run(&cfg6, &st);
        vf_extra("emit_family", "%llu Emits executed in %llu reachable states with a definite active mapper (frame capacity %zu descriptors)", (unsigned long long)emits_run, (unsigned long long)states_with_mapper, fit());
        vf_sample("state(Discover(M2 via BR)) ; Emit(seq=0x0102,family=alternating,n=%zu) => %zu x (sleep,send) + ACK to BR/M2", fit(), fit());
        st.transitions += emits_run;
    } else {
        /* address assignments: a=0: A<B differing in the last byte; a=1: A>B; a=2: far apart */
        if (A.a == 1) { uint8_t t[6]; memcpy(t, W.iface[0].mac, 6); memcpy(W.iface[0].mac, W.iface[1].mac, 6); memcpy(W.iface[1].mac, t, 6); }
        if (A.a == 2) { uint8_t far[6] = {0xf2, 0x99, 0x00, 0x01, 0x7f, 0x80}; memcpy(W.iface[1].mac, far, 6); }
        NEMIT = 0;
        for (int a = 0; a < 16; a++) { EM[NEMIT].n = 1; EM[NEMIT].d[0] = (uint8_t)a; NEMIT++; }
        /* two-descriptor lists: pauses do not influence what B records; only the first descriptor varies its pause */
        for (int a = 0; a < 16; a++) for (int b = 0; b < 16; b++) { if (b & 2) continue; EM[NEMIT].n = 2; EM[NEMIT].d[0] = (uint8_t)a; EM[NEMIT].d[1] = (uint8_t)b; NEMIT++; }
        if (A.a == 3) W.host.fail |= VF_G_ICON;
        if (A.a == 3) {      /* the mapper-chosen Ethernet source is the observer's own address (singles, and as the first of a pair); reduced list of the other descriptors and events */
            static const uint8_t others[6] = {4, 5, 12, 13, 20, 21};
            NEMIT = 0;
            for (int a = 0; a < 4; a++) { EM[NEMIT].n = 1; EM[NEMIT].d[0] = (uint8_t)(16 | 4 | a); NEMIT++; }
            for (int b = 0; b < 4; b++) { EM[NEMIT].n = 1; EM[NEMIT].d[0] = others[b]; NEMIT++; }
            for (int a = 0; a < 2; a++) for (int b = 0; b < 6; b++) { EM[NEMIT].n = 2; EM[NEMIT].d[0] = (uint8_t)(16 | 4 | a); EM[NEMIT].d[1] = others[b]; NEMIT++; }
        }
        if (A.a == 4) {      /* mapper-chosen sources that differ from each other in one octet only (S0, S0', S0''), towards B, singles and pairs */
            static const uint8_t tw[6] = {4, 5, 32 | 4, 32 | 5, 64 | 4, 64 | 5};
            NEMIT = 0;
            for (int a = 0; a < 6; a++) { EM[NEMIT].n = 1; EM[NEMIT].d[0] = tw[a]; NEMIT++; }
            for (int a = 0; a < 6; a++) for (int b = 0; b < 6; b++) { if (a / 2 == b / 2) continue; EM[NEMIT].n = 2; EM[NEMIT].d[0] = tw[a]; EM[NEMIT].d[1] = tw[b]; NEMIT++; }
        }
        QCAP = vf_thorough() ? 3 : 2;
        e1_cfg cfg = { .nev = X_EMIT0 + NEMIT, .ev_name = x_name, .apply = x_apply, .enabled = x_enabled, .root_setup = x_root, .model = &M10, .model_size = sizeof M10,
                       .deadline_s = A.deadline, .prune_on_violation = 1 };
        if (A.replay) { A.verbose = 1; return e1_replay_file(&cfg, A.replay); }
        e1_run(&cfg, &st);
        vf_extra("alphabet", "%d events (%d Emit descriptor lists); in-flight queue bounded at %d frames", X_EMIT0 + NEMIT, NEMIT, QCAP);
    }
    R.states = st.states; R.transitions = st.transitions; R.evaluations = st.transitions; R.max_depth = st.max_depth;
    R.fixpoint = st.fixpoint; R.exhaustive = st.fixpoint; R.cap_hit = st.cap;
    R.wall_s = vf_now_s() - t0;
    vf_write_results();
    return 0;
}
