/* C04 (Linux platform layer) - os/linux/lltd_port.c linked alone against its own header: the getters
 * must derive what they supply from the network_interface_t record without distortion.
 * LinkSpeed: all 2^32 values -> /100; MediumType: all 2^32 -> duplex bit iff IFM_FDX; flags: all 2^32 ->
 * loopback bit iff IFF_LOOPBACK; MAC per-byte sweep; MTU / ifType byte grid + walking bits.
 * --a/--b: range of the top byte for the 2^32 sweeps (partitioning). */
#include "../mc/vf.h"
#include "lltdPort.h"
#include VF_LINUX_MAIN_H

#include <net/if.h>
#include <stdlib.h>
#include <string.h>

#ifndef IFM_FDX
#define IFM_FDX 0x0010
#endif
#define CH_DUPLEX   0x2000u      /* MS-LLTD characteristics: full duplex (bit 29 of the 32-bit field) */
#define CH_LOOPBACK 0x0800u      /* loopback (bit 27) */

static uint64_t evals;
static int cexk; static uint32_t cexv;
static void cexw(FILE *f) { fprintf(f, "\"events\":[%d,%u,%u]", cexk, cexv >> 16, cexv & 0xFFFF); }
#define BAD(cls, ...) do { cexk = k; cexv = v; vf_violation("linux-port:" cls, __VA_ARGS__); } while (0)

static network_interface_t NI;

static void check(int k, uint32_t v) {
    memset(&NI, 0, sizeof NI);
    NI.deviceName = "eth0"; NI.socket = -1; NI.MTU = 1500; NI.ifType = 6;
    uint8_t m0[6] = {2, 3, 4, 5, 6, 7}; memcpy(NI.macAddress, m0, 6);
    switch (k) {
        case 0: NI.LinkSpeed = v; break; case 1: NI.MediumType = v; break; case 2: NI.flags = v; break;
        case 3: NI.macAddress[(v >> 8) % 6] = (uint8_t)v; if (v >> 16) for (int i = 0; i < 6; i++) if (i != (int)((v >> 8) % 6)) NI.macAddress[i] = 0xff; break;
        case 4: NI.MTU = v; break; case 5: NI.ifType = v; break;
        case 6: {      /* joint grid: the five attribute words together, 6 boundary values each (v = base-6 digits) */
            const uint32_t med[6] = {0, IFM_FDX, 0xFFFFFFFFu, ~(uint32_t)IFM_FDX, IFM_FDX | 0x20, 0x80000000u};
            const uint32_t flg[6] = {0, IFF_LOOPBACK, IFF_UP | IFF_RUNNING, 0xFFFFFFFFu, ~(uint32_t)IFF_LOOPBACK, IFF_LOOPBACK | IFF_UP | IFF_RUNNING};
            const uint32_t spd[6] = {0, 99, 100, 1000000000u, 0xFFFFFFFFu, 54000000u};
            const uint32_t mtu6[6] = {576, 1500, 9216, 0, 65535, 0xFFFFFFFFu};
            const uint32_t ift[6] = {6, 71, 24, 0, 0xFFFFFFFFu, 1};
            NI.MediumType = med[v % 6]; NI.flags = flg[(v / 6) % 6]; NI.LinkSpeed = spd[(v / 36) % 6]; NI.MTU = mtu6[(v / 216) % 6]; NI.ifType = ift[(v / 1296) % 6];
            break; }
    }
    evals++;
    uint32_t sp = 0; size_t mtu = 0; uint32_t ift = 0; ethernet_address_t mac; memset(&mac, 0, sizeof mac);
    int r1 = lltd_port_get_link_speed_100bps(&NI, &sp);
    uint32_t fl = lltd_port_get_characteristics_flags(&NI);
    int r2 = lltd_port_get_mtu(&NI, &mtu), r3 = lltd_port_get_if_type(&NI, &ift), r4 = lltd_port_get_mac_address(&NI, &mac);
    if (r1 || r2 || r3 || r4) BAD("getter-fails", "a getter failed on a valid interface record (%d %d %d %d)", r1, r2, r3, r4);
    if (sp != NI.LinkSpeed / 100u) BAD("link-speed", "LinkSpeed %u bit/s supplied as %u (units of 100 bit/s expected: %u)", NI.LinkSpeed, sp, NI.LinkSpeed / 100u);
    uint32_t expfl = ((NI.MediumType & IFM_FDX) ? CH_DUPLEX : 0) | ((NI.flags & IFF_LOOPBACK) ? CH_LOOPBACK : 0);
    if (fl != expfl) BAD("characteristics", "MediumType 0x%08x flags 0x%08x mapped to characteristics 0x%04x, expected 0x%04x", NI.MediumType, NI.flags, fl, expfl);
    if (mtu != NI.MTU) BAD("mtu", "MTU %u supplied as %zu", NI.MTU, mtu);
    if (ift != NI.ifType) BAD("if-type", "ifType 0x%08x supplied as 0x%08x", NI.ifType, ift);
    if (memcmp(mac.a, NI.macAddress, 6)) BAD("mac", "hardware address distorted");
    if ((v & 0xFFFFF) == 0 || evals < 64) { uint32_t o[3] = {sp, fl, (uint32_t)k}; vf_outcome(vf_hash64(o, sizeof o, 1)); }
}

int main(int argc, char **argv) {
    vf_parse_args(argc, argv, "C04");
    vf_cex_writer = cexw;
    if (A.replay) {
        FILE *f = fopen(A.replay, "r"); static char buf[1 << 16]; size_t n = f ? fread(buf, 1, sizeof buf - 1, f) : 0; buf[n] = 0; if (f) fclose(f);
        char *p = strstr(buf, "\"events\":["); if (!p) return 2;
        int k; unsigned hi, lo; if (sscanf(p + 10, "%d,%u,%u", &k, &hi, &lo) != 3) return 2;
        A.verbose = 1;
        for (int round = 0; round < 2; round++) check(k, (hi << 16) | lo);
        printf("replayed linux port getter check kind=%d value=0x%08x twice: %s\n", k, (hi << 16) | lo, vf_nviolations() ? "violation reproduced" : "no violation");
        return vf_nviolations() ? 1 : 0;
    }
    double t0 = vf_now_s();
    uint64_t lo = (uint64_t)A.a << 24, hi = (uint64_t)A.b << 24;
    for (int k = 0; k < 3; k++) for (uint64_t v = lo; v < hi; v++) check(k, (uint32_t)v);
    if (A.a == 0) {
        for (uint32_t bg = 0; bg < 2; bg++) for (uint32_t pos = 0; pos < 6; pos++) for (uint32_t val = 0; val < 256; val++) check(3, (bg << 16) | (pos << 8) | val);
        static const uint8_t gb[5] = {0x00, 0x01, 0x7F, 0x80, 0xFF};
        for (int k = 4; k < 6; k++) {
            for (int i = 0; i < 625; i++) check(k, ((uint32_t)gb[i % 5] << 24) | ((uint32_t)gb[(i / 5) % 5] << 16) | ((uint32_t)gb[(i / 25) % 5] << 8) | gb[(i / 125) % 5]);
            for (int b = 0; b < 32; b++) { check(k, 1u << b); check(k, ~(1u << b)); }
        }
        for (uint32_t v = 0; v < 7776; v++) check(6, v);
    }
    vf_sample("os/linux/lltd_port.c alone: LinkSpeed, MediumType, flags: every value in [0x%02lx000000,0x%02lx000000); MAC per byte; MTU/ifType grid; joint grid of 6^5 (MediumType, flags, LinkSpeed, MTU, ifType) tuples", A.a, A.b);
    R.evaluations = evals; R.exhaustive = 1; R.wall_s = vf_now_s() - t0;
    vf_write_results();
    return 0;
}
