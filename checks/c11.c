/* C11 - acknowledgement by the mapper is recognised from the Discover.
 * Exhaustive layout sweep of derive_session_event (built without LLTD_TESTING):
 * station count 0..240 x every position of the own address (and absent, and "decoy" layouts in
 * which only a reader with the wrong stride would see it) x 6 session-table shapes; plus all 256
 * opcodes x 3 real destinations. */
#include "../mc/vf.h"
#include "lltdAutomata.h"

#include <stdlib.h>
#include <string.h>

static uint64_t evals;
static session_table *T, *T2;        /* T2: the (empty) session table of a second interface */
static const uint8_t *OWN;
static e1_cfg pseudo;

enum { TB_EMPTY, TB_SAME_SEQ, TB_OTHER_SEQ, TB_OTHER_GEN, TB_OTHER_MAPPER, TB_FULL, TB_HOLE_SAME_SEQ, TB_HOLE_OTHER_SEQ, TB_LAST_SLOT_OTHER_SEQ, TB_TWIN_MAPPER, TB_OTHER_SEQ_HIGH, TB_N };
static const char *TBNAME[] = {"empty", "same mapper+generation, same seq", "same mapper+generation, other seq", "same mapper, other generation", "other mapper, same generation", "full table without the session",
                               "session behind a freed slot, same seq", "session behind a freed slot, other seq", "session in the last slot of an otherwise full table, other seq",
                               "a twin of the mapper (differs in the first two octets only), same generation, other seq",
                               "same mapper+generation, seq differing in the high byte only"};
#define GEN 0x0A0B
#define SEQ 0x0011

static void table_shape(int shape) {
    session_table_clear(T);
    switch (shape) {
        case TB_SAME_SEQ: session_table_add(T, vf_station[ST_M1], GEN, SEQ); break;
        case TB_OTHER_SEQ: session_table_add(T, vf_station[ST_M1], GEN, SEQ + 1); break;
        case TB_OTHER_SEQ_HIGH: session_table_add(T, vf_station[ST_M1], GEN, SEQ ^ 0x0100); break;
        case TB_OTHER_GEN: session_table_add(T, vf_station[ST_M1], GEN + 1, SEQ + 1); break;
        case TB_OTHER_MAPPER: session_table_add(T, vf_station[ST_M2], GEN, SEQ + 1); break;
        case TB_HOLE_SAME_SEQ: case TB_HOLE_OTHER_SEQ: {      /* earlier sessions came and went: the slot in front of ours is free again */
            uint8_t m[6] = {0, 0xaa, 0xbb, 0xcc, 0xdd, 0x77};
            session_table_add(T, m, GEN, SEQ); session_table_add(T, vf_station[ST_M1], GEN, shape == TB_HOLE_SAME_SEQ ? SEQ : SEQ + 1); session_table_remove(T, m, GEN); break; }
        case TB_LAST_SLOT_OTHER_SEQ:
            for (int i = 0; i < SESSION_TABLE_MAX_ENTRIES - 1; i++) { uint8_t m[6] = {0, 0xaa, 0xbb, 0xcc, 0xdd, (uint8_t)i}; session_table_add(T, m, (uint16_t)(GEN + (i & 1)), SEQ + 1); }
            session_table_add(T, vf_station[ST_M1], GEN, SEQ + 1); break;
        case TB_TWIN_MAPPER: { uint8_t m[6]; memcpy(m, vf_station[ST_M1], 6); m[0] ^= 0x02; m[1] ^= 0x40; session_table_add(T, m, GEN, SEQ + 1); break; }
        case TB_FULL: for (int i = 0; i < SESSION_TABLE_MAX_ENTRIES; i++) { uint8_t m[6] = {0, 0xaa, 0xbb, 0xcc, 0xdd, (uint8_t)i}; session_table_add(T, m, (uint16_t)(GEN + (i & 1)), SEQ + 1); } break;
    }
}

/* layout code: count (0..240), pos: -1 absent, -2 decoy for a 14-byte stride reader, -3 decoy shifted by 2, else position */
static int BRIDGED;            /* the Discover reaches us through a bridge: Ethernet source BR, real source (the session's key) M1 */
static size_t build_discover(uint8_t *buf, size_t mtu, int count, int pos) {
    memset(buf, 0x5A, mtu);                    /* stale bytes after the frame are not zero */
    static const uint8_t bc[6] = {0xff, 0xff, 0xff, 0xff, 0xff, 0xff};
    fb_base(buf, bc, vf_station[BRIDGED ? ST_BR : ST_M1], 0, 0x00, bc, vf_station[ST_M1], SEQ);
    buf[32] = GEN >> 8; buf[33] = GEN & 0xff; buf[34] = (uint8_t)(count >> 8); buf[35] = (uint8_t)count;
    for (int i = 0; i < count; i++) {
        /* fillers share 5 leading or 5 trailing bytes with the own address */
        uint8_t a[6]; memcpy(a, OWN, 6);
        if (i % 8 == 7) { a[0] ^= 0x02; a[1] ^= (uint8_t)(0x40 >> (i / 8 % 6)); }            /* twins: equal in the last four octets */
        else if (i % 8 == 6) { static const uint8_t mk[3] = {0x01, 0x80, 0x10}; a[(i / 8) % 6] ^= mk[(i / 48) % 3]; }   /* near misses in every octet */
        else if (i & 1) a[0] ^= (uint8_t)(0x10 + (i & 0x0e)); else a[5] ^= (uint8_t)(1 + (i % 200));
        if (memcmp(a, OWN, 6) == 0) a[5] ^= 0x80;
        memcpy(buf + 36 + 6 * i, a, 6);
    }
    if (pos >= 0) memcpy(buf + 36 + 6 * pos, OWN, 6);
    if (pos == -2 && count >= 5) {
        /* own address at byte offset 36+14*1+6 = 56: straddles stations 3 and 4 */
        buf[54] = 0x01; buf[55] = 0x02; memcpy(buf + 56, OWN, 6); buf[62] = 0x03; buf[63] = 0x04; buf[64] = 0x05; buf[65] = 0x06;
    }
    if (pos == -3 && count >= 3) { buf[36] = 0x07; buf[37] = 0x08; memcpy(buf + 38, OWN, 6); buf[44] = 0x09; buf[45] = 0x0a; buf[46] = 0x0b; buf[47] = 0x0c; }
    return 36 + 6 * (size_t)count;
}

static const char *evname(int e) {
    static const char *n[] = {"discover_conflicting", "reset", "discover_noack", "discover_acking", "discover_noack_chgd_xid", "discover_acking_chgd_xid", "topo_reset", "hello"};
    return e >= 0 && e < 8 ? n[e] : "none(-1)";
}

/* path: [0, mtu, count, pos+8, shape] for Discover; [1, opcode, dst] for the opcode sweep */
/* address variants (flags bits 2..3): 0 the default stations; 1 own 00:50:f2:12:34:56, mapper 00:50:f2:aa:bb:01 (third octet >= 0x80);
 * 2 own 82:ff:80:ff:80:fe, mapper fe:ff:ff:ff:ff:fe (top bits set everywhere) */
static uint8_t OWN0[6], M10[6];
static void set_addresses(int v) {
    static const uint8_t own1[6] = {0x00, 0x50, 0xf2, 0x12, 0x34, 0x56}, m1[6] = {0x00, 0x50, 0xf2, 0xaa, 0xbb, 0x01};
    static const uint8_t own2[6] = {0x82, 0xff, 0x80, 0xff, 0x80, 0xfe}, m2[6] = {0xfe, 0xff, 0xff, 0xff, 0xff, 0xfe};
    memcpy(W.iface[0].mac, v == 1 ? own1 : v == 2 ? own2 : OWN0, 6); memcpy(vf_station[ST_M1], v == 1 ? m1 : v == 2 ? m2 : M10, 6);
}
static void one_discover(size_t mtu, int count, int pos, int shape, int flags) {
    static uint8_t buf[VF_MAXMTU + 64];
    int null_mac = flags & 1; BRIDGED = (flags >> 1) & 1;
    set_addresses((flags >> 2) & 3);
    build_discover(buf, mtu, count, pos);
    BRIDGED = 0;
    table_shape(shape);
    static int p[6]; p[0] = 0; p[1] = (int)mtu; p[2] = count; p[3] = pos + 8; p[4] = shape; p[5] = flags;
    e1_manual_path(&pseudo, p, 6);
    int ev = derive_session_event(buf, T, null_mac ? NULL : OWN);
    int ev2 = derive_session_event_len(buf, 36 + 6 * (size_t)count, T, null_mac ? NULL : OWN);      /* as the Darwin daemon calls it */
    evals += 2;
    if (ev2 != ev) vf_violation("classify:length-bounded-variant-differs", "Discover with %d stations received completely: derive_session_event_len -> %s, derive_session_event -> %s", count, evname(ev2), evname(ev));
    vf_outcome(vf_hash64(&ev, sizeof ev, (uint64_t)(pos >= 0) + 2u * (uint64_t)shape));
    if (A.verbose) printf("    Discover(%saddress set %d, count=%d, own address %s, table: %s) -> %s\n", (flags & 2) ? "through a bridge, " : "", (flags >> 2) & 3, count, pos >= 0 ? "listed" : "not listed", TBNAME[shape], evname(ev));
    if (null_mac) { set_addresses(0); return; }                       /* only memory safety is demanded without an own address */
    set_addresses(0);
    int changed = (shape == TB_OTHER_SEQ || shape == TB_HOLE_OTHER_SEQ || shape == TB_LAST_SLOT_OTHER_SEQ || shape == TB_OTHER_SEQ_HIGH);
    int ack_class = (ev == sess_discover_acking || ev == sess_discover_acking_chgd_xid);
    int noack_class = (ev == sess_discover_noack || ev == sess_discover_noack_chgd_xid);
    const char *where = pos == -2 ? "decoy-14-byte-stride" : pos == -3 ? "decoy-shifted" : pos < 0 ? "absent" : pos == 0 ? "first" : pos == count - 1 ? "last" : "inner";
    if (!ack_class && !noack_class) {
        vf_violation("classify:discover-not-a-discover-event", "Discover with %d stations classified as %s", count, evname(ev));
        return;
    }
    if (count > 0) {
        if (pos >= 0 && !ack_class) { char sig[96]; snprintf(sig, sizeof sig, "classify:listed-but-noack:%s", where); vf_violation(sig, "own address at position %d of %d stations (6-byte entries), table %s: classified %s instead of acknowledging", pos, count, TBNAME[shape], evname(ev)); }
        if (pos < 0 && !noack_class) { char sig[96]; snprintf(sig, sizeof sig, "classify:not-listed-but-acking:%s", where); vf_violation(sig, "own address not among the %d stations (%s), table %s: classified %s instead of not acknowledging", count, where, TBNAME[shape], evname(ev)); }
    }
    /* the same frame classified for a second interface whose table knows no session: what interface 1 knows must not matter */
    if (!T2) T2 = session_table_create();
    set_addresses((flags >> 2) & 3);
    int evb = derive_session_event_len(buf, 36 + 6 * (size_t)count, T2, OWN);
    set_addresses(0);
    evals++;
    if (evb == sess_discover_acking_chgd_xid || evb == sess_discover_noack_chgd_xid)
        vf_violation("classify:changed-transaction-from-another-table", "table of interface 1: %s; the same Discover classified against the EMPTY table of a second interface gives %s", TBNAME[shape], evname(evb));
    int is_chgd = (ev == sess_discover_acking_chgd_xid || ev == sess_discover_noack_chgd_xid);
    if (is_chgd != changed) vf_violation(changed ? "classify:changed-transaction-missed" : "classify:changed-transaction-spurious", "table %s: event %s, the 'changed transaction' variant is due exactly when the same mapper+generation is known under another sequence number", TBNAME[shape], evname(ev));
}

/* truncated Discover: the count field says `count`, but only `held` stations were received (the rest of the
 * buffer is stale and may even contain our address): only the stations the frame holds count */
static void one_truncated(size_t mtu, int count, int held, int pos) {
    static uint8_t buf[VF_MAXMTU + 64];
    build_discover(buf, mtu, count, pos);
    table_shape(TB_EMPTY);
    static int p[6]; p[0] = 2; p[1] = (int)mtu; p[2] = count; p[3] = held; p[4] = pos + 8; p[5] = 0;
    e1_manual_path(&pseudo, p, 6);
    int ev = derive_session_event_len(buf, 36 + 6 * (size_t)held, T, OWN);
    evals++;
    vf_outcome(vf_hash64(&ev, sizeof ev, 1000u + (uint64_t)(pos < held)));
    if (A.verbose) printf("    Discover(count=%d, %d stations received, own address at position %d) -> %s\n", count, held, pos, evname(ev));
    if (held == 0) return;                       /* nothing of the list was received: unconstrained */
    int ack_class = (ev == sess_discover_acking || ev == sess_discover_acking_chgd_xid);
    int noack_class = (ev == sess_discover_noack || ev == sess_discover_noack_chgd_xid);
    if (pos >= 0 && pos < held && !ack_class) vf_violation("classify:truncated:listed-but-noack", "count field %d, %d stations received, own address at position %d (inside the received part): classified %s", count, held, pos, evname(ev));
    if ((pos < 0 || pos >= held) && !noack_class) vf_violation("classify:truncated:not-received-but-acking", "count field %d, %d stations received, own address %s: classified %s", count, held, pos < 0 ? "absent" : "only in the stale bytes beyond the received length", evname(ev));
}

static void one_opcode(int opcode, int dst) {
    static uint8_t buf[1600]; memset(buf, 0, sizeof buf);
    static const uint8_t mc6[6] = {0x33, 0x33, 0xff, 0xff, 0xff, 0xff};      /* an IPv6 multicast group address: not the broadcast address */
    int av = dst >> 2; dst &= 3; set_addresses(av);
    const uint8_t *d = dst == 0 ? vf_station[ST_BC] : dst == 1 ? OWN : dst == 3 ? mc6 : vf_station[ST_M1];
    fb_base(buf, d, vf_station[ST_M1], 0, (uint8_t)opcode, d, vf_station[ST_M1], SEQ);
    table_shape(TB_EMPTY);
    static int p[3]; p[0] = 1; p[1] = opcode; p[2] = dst | (av << 2); e1_manual_path(&pseudo, p, 3);
    if (opcode == 0x00) { set_addresses(0); return; }
    int ev = derive_session_event(buf, T, OWN);
    /* the length-aware entry point with every received length a complete frame of this opcode can have (32 bytes unpadded,
     * a few more, Ethernet's minimum 60, a full buffer): the classification must not depend on padding */
    { static const size_t LENS[6] = {32, 33, 35, 36, 60, 1500};
      for (int li = 0; li < 6; li++) {
          if (opcode == 0x01 && LENS[li] < 46) continue;      /* a Hello is complete only with its 14-byte upper header */
          int evl = derive_session_event_len(buf, LENS[li], T, OWN); evals++;
          if (evl != ev) { set_addresses(0); vf_violation("classify:depends-on-padding", "opcode 0x%02x received with %zu bytes: derive_session_event_len -> %s, with the whole buffer -> %s", opcode, LENS[li], evname(evl), evname(ev)); set_addresses(av); }
      } }
    set_addresses(0);
    evals++;
    int exp = opcode == 0x08 ? (dst == 0 ? sess_topo_reset : sess_reset) : opcode == 0x01 ? sess_hello : -1;
    vf_outcome(vf_hash64(&ev, sizeof ev, 99));
    if (A.verbose) printf("    opcode 0x%02x, real destination %s -> %s\n", opcode, dst == 0 ? "broadcast" : dst == 1 ? "own" : dst == 3 ? "33:33:ff:ff:ff:ff" : "M1", evname(ev));
    if (ev != exp) { char sig[96]; snprintf(sig, sizeof sig, "classify:opcode-0x%02x", opcode == 0x08 || opcode == 0x01 ? opcode : 0xEE); vf_violation(sig, "frame with opcode 0x%02x and real destination %s classified as %s, expected %s", opcode, dst == 0 ? "broadcast" : dst == 1 ? "own" : dst == 3 ? "33:33:ff:ff:ff:ff" : "M1", evname(ev), evname(exp)); }
}

static int staged[8], nst;
static void ps_name(int ev, char *b, size_t cap) { snprintf(b, cap, "arg(%d)", ev); }
static void ps_root(void) { nst = 0; T = session_table_create(); T2 = NULL; }
static void ps_apply(int ev) {
    staged[nst++] = ev;
    if (staged[0] == 0 && nst == 6) { one_discover((size_t)staged[1], staged[2], staged[3] - 8, staged[4], staged[5]); nst = 0; }
    if (staged[0] == 1 && nst == 3) { one_opcode(staged[1], staged[2]); nst = 0; }
    if (staged[0] == 2 && nst == 6) { one_truncated((size_t)staged[1], staged[2], staged[3], staged[4] - 8); nst = 0; }
}

int main(int argc, char **argv) {
    vf_parse_args(argc, argv, "C11");
    vf_world_init(1500, 0, (uint8_t)A.fill);
    OWN = W.iface[0].mac; memcpy(OWN0, OWN, 6); memcpy(M10, vf_station[ST_M1], 6);
    pseudo = (e1_cfg){ .nev = 1 << 16, .ev_name = ps_name, .apply = ps_apply, .root_setup = ps_root };
    if (A.replay) { A.verbose = 1; return e1_replay_file(&pseudo, A.replay); }
    double t0 = vf_now_s();
    T = session_table_create();
    size_t mtus[2] = {1500, 9216};
    for (int mi = 0; mi < 2; mi++) for (int count = 0; count <= 240; count++) for (int shape = 0; shape < TB_N; shape++) {
        for (int pos = -3; pos < count; pos++) one_discover(mtus[mi], count, pos, shape, 0);
        if (mi == 0) for (int pos = -1; pos < count; pos++) one_discover(mtus[mi], count, pos, shape, 2);      /* the same through a bridge */
        if (mi == 0) for (int av = 1; av < 3; av++) for (int pos = -1; pos < count; pos++) one_discover(mtus[mi], count, pos, shape, av << 2);      /* other address sets */
        one_discover(mtus[mi], count, -1, shape, 1);
        if (count) one_discover(mtus[mi], count, count / 2, shape, 1);
    }
    for (int count = 1; count <= 240; count++) {
        int helds[5] = {0, 1, count / 2, count - 1, count};
        for (int hi = 0; hi < 5; hi++) { int h = helds[hi]; int poss[6] = {-1, 0, h - 1, h, count - 1, count / 3}; for (int pi = 0; pi < 6; pi++) if (poss[pi] >= -1 && poss[pi] < count) one_truncated(1500, count, h, poss[pi]); }
    }
    for (int av = 0; av < 3; av++) for (int op = 0; op < 256; op++) for (int dst = 0; dst < 4; dst++) one_opcode(op, dst | (av << 2));
    vf_sample("Discover(count=240, own address at position 239, table: same mapper+generation, other seq) -> must be discover_acking_chgd_xid");
    vf_sample("the same layouts with Ethernet source = a bridge and real source = the mapper (MTU 1500): the session is the real source's");
    vf_sample("three address sets (default; third octet >= 0x80; top bits set in every octet); fillers include near misses in every octet and twins equal in the last four octets; a twin of the mapper in the table");
    vf_sample("Discover(count=5, own address only at byte offset 56 (where a 14-byte-stride reader looks), table empty) -> must be discover_noack");
    vf_sample("truncated Discover: count 1..240 x received stations {0,1,count/2,count-1,count} x own address inside / beyond the received part (bounded entry point)");
    vf_sample("opcode 0x08 with real destination broadcast -> topo_reset; unicast -> reset; opcode 0x01 -> hello; all 253 others -> no event");
    R.evaluations = evals; R.exhaustive = 1; R.wall_s = vf_now_s() - t0;
    vf_write_results();
    return 0;
}
