/* C08 - large properties are retrievable byte-exactly by offset.
 * Exhaustive (size, offset) sweep through the real request path (parseFrame with a real
 * QueryLargeTlv frame; the platform blob is served by the verification port).
 * modes: grid  - boundary grid of sizes x offsets for icon / friendly name, every even size x every
 *                offset for the hardware id, all 256 property types, reassembly end to end
 *        full  - icon path: every size in [--a, --b) x every offset 0..65535 (thorough tier) */
#include "../mc/sigma.h"

#include <stdlib.h>
#include <string.h>

static uint8_t BLOB[70000];
static uint64_t evals;
static e1_cfg pseudo;
static size_t P;            /* per-frame payload capacity */
static int pre_code;        /* 0: fresh responder; 1..3: another station (M2) is the active mapper (Discover [, its own QueryLargeTlv [, Query]]) */
static int request(uint8_t type, size_t size, uint16_t off, uint16_t seq, uint8_t tos, int bridged, int *more_out, int known);
static void pre_steps(int code, uint8_t type, uint8_t tos) {
    if (!code) return;
    if (code == 6) {      /* a transfer is under way (first chunk fetched by mapper M1 after its Discover); M1 sends another Discover with a new
                           * generation (no Reset), and the platform's icon is replaced: the continuation must still be the icon the transfer began with */
        int saved = pre_code; pre_code = 0;
        pev d = ev_discover(tos, ST_M1, ST_M1, 0x0101, 1); vf_trace_clear(); drv_linux(&d, 0);
        request(type, type == 0x0E ? W.host.icon_size : W.host.fname_size, 0, 0x0301, tos, 0, NULL, 1);
        pev d2 = ev_discover(tos, ST_M1, ST_M1, 0x0202, 2); vf_trace_clear(); drv_linux(&d2, 0);
        W.env.icon_epoch = 1;
        pre_code = saved;
        return;
    }
    if (code == 7 || code == 8) {      /* earlier in this session a large property (7: the same one, 8: the other one) was fetched while the interface had a
                                        * LARGER MTU; the MTU has been lowered since (no Reset): every later response must fit the MTU the interface has now */
        size_t now = W.iface[0].mtu, big = now * 6 + 100 > 9216 ? 9216 : now * 6 + 100;
        uint8_t first = code == 7 ? type : (uint8_t)(type == 0x0E ? 0x11 : 0x0E);
        static uint8_t f[64]; const uint8_t *own = W.iface[0].mac;
        W.iface[0].mtu = big;
        fb_qlt(f, own, vf_station[ST_M1], own, vf_station[ST_M1], tos, 0x0208, first, 0);
        vf_trace_clear(); drv_linux_deliver(0, f, 36);
        W.iface[0].mtu = now;
        return;
    }
    pev d = ev_discover(0, ST_M2, ST_M2, 0x0707, 0x0222); vf_trace_clear(); drv_linux(&d, 0);
    if (code >= 2) { pev q = ev_qlt(tos, ST_M2, ST_M2, 0x0333, type, 0); vf_trace_clear(); drv_linux(&q, 0); }
    if (code == 3) { pev q = ev_query(0, ST_M2, ST_M2, 0x0444); vf_trace_clear(); drv_linux(&q, 0); }
}

static void set_blob(uint8_t type, size_t size) {
    if (type == 0x0E) { W.host.icon = BLOB; W.host.icon_size = size; W.host.icon_ok = 1; }
    else if (type == 0x11) { W.host.fname = BLOB + 3; W.host.fname_size = size; W.host.fname_ok = 1; }
    else if (type == 0x13) { for (size_t i = 0; i < 80; i++) W.host.hwid[i] = (uint8_t)(1 + (i * 7) % 250); W.host.hwid_len = size; }
}
static const uint8_t *blob_of(uint8_t type) { return type == 0x0E ? BLOB : type == 0x11 ? BLOB + 3 : type == 0x13 ? W.host.hwid : NULL; }

/* one request; returns payload length delivered, sets *more; -1 if not answered */
static int request(uint8_t type, size_t size, uint16_t off, uint16_t seq, uint8_t tos, int bridged, int *more_out, int known) {
    static uint8_t f[64];
    static int p[8]; p[0] = type; p[1] = (int)size; p[2] = off; p[3] = seq; p[4] = tos; p[5] = bridged; p[6] = known; p[7] = pre_code;
    e1_manual_path(&pseudo, p, 8);
    const uint8_t *own = W.iface[0].mac;
    fb_qlt(f, own, vf_station[bridged ? ST_BR : ST_M1], own, vf_station[ST_M1], tos, seq, type, off);
    vf_trace_clear();
    drv_linux_deliver(0, f, 36);
    evals++;
    int sends = 0; const vf_trec *t = NULL;
    for (uint32_t i = 0; i < W.ntrace; i++) if (W.trace[i].kind == VF_T_SEND) { sends++; t = &W.trace[i]; }
    if (seq == 0) {
        if (sends) vf_violation("largetlv:seq0-answered", "QueryLargeTlv(type 0x%02x) with sequence number 0 was answered", type);
        return -1;
    }
    if (sends != 1) { vf_violation("largetlv:frame-count", "QueryLargeTlv(type 0x%02x, size %zu, offset %u): %d frames sent", type, size, off, sends); return -1; }
    const uint8_t *b = vf_trace_bytes + t->off;
    if (t->len < 34 || b[17] != 0x0C) { vf_violation("largetlv:not-a-response", "answer has opcode 0x%02x, %u bytes", t->len >= 18 ? b[17] : 0, t->len); return -1; }
    unsigned field = (unsigned)((b[32] << 8) | b[33]); unsigned L = field & 0x3FFF; int more = (field & 0x8000) != 0;
    if (((b[30] << 8) | b[31]) != seq) vf_violation("largetlv:sequence-number", "response carries sequence number 0x%04x for request 0x%04x", (b[30] << 8) | b[31], seq);
    if (t->len != 34 + L) vf_violation("largetlv:length-field-vs-frame", "length field %u but the frame has %u bytes", L, t->len);
    if (t->len > W.iface[0].mtu) vf_violation("largetlv:exceeds-mtu", "%u bytes sent on an interface with MTU %zu", t->len, W.iface[0].mtu);
    size_t expL = 0; int expMore = 0;
    if (known && off < size) { expL = size - off; if (expL > P) expL = P; expMore = (size - off) > expL; }
    const char *cls = !known ? "unknown-type" : off >= size ? "offset-at-or-past-end" : expMore ? "inner-chunk" : "final-chunk";
    if (L != expL) { char sig[96]; snprintf(sig, sizeof sig, "largetlv:payload-length:%s", cls); vf_violation(sig, "type 0x%02x size %zu offset %u (payload capacity %zu): %u payload bytes, expected %zu", type, size, off, P, L, expL); }
    if (more != expMore) { char sig[96]; snprintf(sig, sizeof sig, "largetlv:more-flag:%s", cls); vf_violation(sig, "type 0x%02x size %zu offset %u: 'more' flag %d, %s", type, size, off, more, expMore ? "bytes remain beyond this chunk" : "nothing remains"); }
    if (known && L == expL && L && memcmp(b + 34, blob_of(type) + off, L) != 0) {
        unsigned k = 0; while (b[34 + k] == blob_of(type)[off + k]) k++;
        char sig[96]; snprintf(sig, sizeof sig, "largetlv:payload-bytes:%s", cls);
        vf_violation(sig, "type 0x%02x size %zu offset %u: payload byte %u is 0x%02x, the platform's byte at %u is 0x%02x", type, size, off, k, b[34 + k], off + k, blob_of(type)[off + k]);
    }
    if (more_out) *more_out = more;
    if ((evals & 0x3ff) == 0 || size < 4) { uint32_t o[3] = {L, (uint32_t)more, type}; vf_outcome(vf_hash64(o, sizeof o, 5)); }
    return (int)L;
}

static void reassemble(uint8_t type, size_t size) {
    static uint8_t got[70000]; size_t n = 0; uint16_t off = 0; int more = 1, guard = 0;
    while (more && guard++ < 4000) {
        int L = request(type, size, off, 0x0101, 0, 0, &more, 1);
        if (L < 0) return;
        const vf_trec *t = NULL; for (uint32_t i = 0; i < W.ntrace; i++) if (W.trace[i].kind == VF_T_SEND) t = &W.trace[i];
        memcpy(got + n, vf_trace_bytes + t->off + 34, (size_t)L); n += (size_t)L;
        if (L == 0 && more) { vf_violation("largetlv:reassembly-stalls", "type 0x%02x size %zu: empty chunk with 'more' set at offset %u", type, size, off); return; }
        off = (uint16_t)(off + L);
    }
    if (n != size || memcmp(got, blob_of(type), size) != 0)
        vf_violation("largetlv:reassembly-differs", "type 0x%02x size %zu: following offset += length until 'more' clears yields %zu bytes that %s the platform's", type, size, n, n == size ? "differ from" : "are not all of");
}

static int cmp_sz(const void *a, const void *b) { size_t x = *(const size_t *)a, y = *(const size_t *)b; return x < y ? -1 : x > y; }
static size_t grid_sizes(size_t *out) {
    size_t n = 0;
    for (size_t s = 0; s <= 3; s++) out[n++] = s;
    for (size_t k = 1; k * P <= 32768 + 2; k++) for (int d = -2; d <= 2; d++) { long v = (long)(k * P) + d; if (v >= 0 && v <= 32768) out[n++] = (size_t)v; }
    out[n++] = 32766; out[n++] = 32767; out[n++] = 32768;
    qsort(out, n, sizeof *out, cmp_sz);
    size_t m = 0; for (size_t i = 0; i < n; i++) if (m == 0 || out[m - 1] != out[i]) out[m++] = out[i];
    return m;
}
static size_t grid_offsets(size_t size, size_t *out) {
    size_t n = 0;
    for (size_t o = 0; o <= 2; o++) out[n++] = o;
    for (size_t j = 1; j * P <= 65535 + 2; j++) for (int d = -2; d <= 2; d++) { long v = (long)(j * P) + d; if (v >= 0 && v <= 65535) out[n++] = (size_t)v; }
    for (int d = -2; d <= 2; d++) { long v = (long)size + d; if (v >= 0 && v <= 65535) out[n++] = (size_t)v; }
    out[n++] = 0x7FFF; out[n++] = 0x8000; out[n++] = 0xFFFE; out[n++] = 0xFFFF;
    qsort(out, n, sizeof *out, cmp_sz);
    size_t m = 0; for (size_t i = 0; i < n; i++) if (m == 0 || out[m - 1] != out[i]) out[m++] = out[i];
    return m;
}

static int staged[9], nst;
static void ps_name(int ev, char *b, size_t cap) { snprintf(b, cap, "arg(%d)", ev); }
static void ps_root(void) { nst = 0; }
static void ps_apply(int ev) {
    staged[nst++] = ev;
    if (nst < 8) return;
    nst = 0;
    vf_world_reset();
    set_blob(0x0E, 3000); set_blob(0x11, 3000); set_blob(0x13, 40);
    set_blob((uint8_t)staged[0], (size_t)staged[1]);
    if (staged[7] == 4 || staged[7] == 5) {      /* earlier in this session the getter failed (4) / the property was empty (5) at a first request */
        int saved = pre_code; pre_code = 0;
        if (staged[7] == 4) { if (staged[0] == 0x0E) W.host.icon_ok = 0; else W.host.fname_ok = 0; } else set_blob((uint8_t)staged[0], 0);
        request((uint8_t)staged[0], 0, 0, 0x0201, 0, 0, NULL, 1);
        set_blob((uint8_t)staged[0], (size_t)staged[1]);
        pre_code = saved;
        printf("    (first request of the session: %s; then the platform provides %d bytes)\n", staged[7] == 4 ? "the getter failed" : "the property was empty", staged[1]);
    } else
    pre_steps(staged[7], (uint8_t)staged[0], (uint8_t)staged[4]);
    int more = 0;
    int L = request((uint8_t)staged[0], (size_t)staged[1], (uint16_t)staged[2], (uint16_t)staged[3], (uint8_t)staged[4], staged[5], &more, staged[6]);
    printf("    QueryLargeTlv(type 0x%02x, platform size %d, offset %d, seq 0x%04x, tos %d, %s) -> %d payload bytes, more=%d\n", staged[0], staged[1], staged[2], staged[3], staged[4], staged[5] ? "bridged" : "direct", L, more);
    vf_trace_print(stdout);
}

int main(int argc, char **argv) {
    vf_parse_args(argc, argv, "C08");
    vf_world_init(A.mtu, 0, (uint8_t)A.fill);
    for (size_t i = 0; i < sizeof BLOB; i++) BLOB[i] = (uint8_t)(i * 131 + (i >> 8) * 17 + 7);
    P = A.mtu - 34;
    pseudo = (e1_cfg){ .nev = 1 << 17, .ev_name = ps_name, .apply = ps_apply, .root_setup = ps_root };
    if (A.replay) { A.verbose = 1; return e1_replay_file(&pseudo, A.replay); }
    double t0 = vf_now_s();
    if (!strcmp(A.mode, "full")) {
        for (long size = A.a; size < A.b; size++) {
            vf_world_reset(); set_blob(0x0E, (size_t)size);
            for (unsigned off = 0; off < 65536; off++) request(0x0E, (size_t)size, (uint16_t)off, 0x0202, 0, 0, NULL, 1);
            if (vf_violation_events && vf_now_s() - vf_first_violation_t > VF_GRACE_AFTER_VIOLATION_S) { R.cap_hit = "stopped-after-violation"; break; }
        }
        vf_sample("icon (cached path): every size in [%ld,%ld) x every offset 0..65535 at MTU %zu", A.a, A.b, A.mtu);
        R.exhaustive = R.cap_hit == NULL;
    } else {
        static size_t sizes[4096], offs[4096];
        size_t ns = grid_sizes(sizes);
        static const uint8_t types[2] = {0x0E, 0x11};
        for (int ti = 0; ti < 2; ti++) for (size_t si = 0; si < ns; si++) {
            vf_world_reset(); set_blob(types[ti], sizes[si]);
            size_t no = grid_offsets(sizes[si], offs);
            for (size_t oi = 0; oi < no; oi++) request(types[ti], sizes[si], (uint16_t)offs[oi], (uint16_t)(0x0100 + oi % 7), (uint8_t)(oi & 1), (oi >> 1) & 1, NULL, 1);
            vf_world_reset(); set_blob(types[ti], sizes[si]);
            reassemble(types[ti], sizes[si]);
        }
        for (size_t size = 0; size <= 64; size += 2) {
            vf_world_reset(); set_blob(0x13, size);
            for (unsigned off = 0; off < 65536; off++) request(0x13, size, (uint16_t)off, 0x0303, 0, 0, NULL, 1);
            vf_world_reset(); set_blob(0x13, size); reassemble(0x13, size);
        }
        /* all 256 property types x offsets {0, mid, end, beyond} x ToS x seq x direct/bridged */
        static const uint16_t seqs[3] = {0, 1, 0xFFFF};
        for (int type = 0; type < 256; type++) {
            int known = type == 0x0E || type == 0x11 || type == 0x13;
            size_t size = type == 0x13 ? 40 : 3000;
            size_t o4[4] = {0, size / 2, size, size + 7};
            for (int oi = 0; oi < 4; oi++) for (int tos = 0; tos < 2; tos++) for (int si = 0; si < 3; si++) for (int br = 0; br < 2; br++) {
                vf_world_reset(); set_blob(0x0E, 3000); set_blob(0x11, 3000); set_blob(0x13, 40);
                request((uint8_t)type, size, (uint16_t)o4[oi], seqs[si], (uint8_t)tos, br, NULL, known);
            }
        }
        /* every 16-bit sequence number (0 = never answered) for each large property, first and inner chunk, both services */
        if (A.mtu == 576 || vf_thorough()) for (int ti = 0; ti < 3; ti++) for (int oi = 0; oi < 2; oi++) for (int br = 0; br < 2; br++) {
            static const uint8_t ty[3] = {0x0E, 0x11, 0x13};
            vf_world_reset(); set_blob(0x0E, 3000); set_blob(0x11, 3000); set_blob(0x13, 40);
            size_t size = ty[ti] == 0x13 ? 40 : 3000;
            for (int seq = 0; seq < 65536; seq++) request(ty[ti], size, (uint16_t)(oi ? size / 2 : 0), (uint16_t)seq, (uint8_t)((seq >> 3) & 1), br, NULL, 1);
        }
        /* the platform's answer changes within a session (no Reset in between): a getter that failed, or a property that was
         * empty, at the first request; when the mapper comes back later and starts at offset 0 it must get the bytes the
         * platform provides THEN */
        for (int ti = 0; ti < 2; ti++) for (int how = 0; how < 1; how++) for (int szi = 0; szi < 3; szi++) {      /* how 1 (property empty at first, cached as such for the session) is a legitimate snapshot: not demanded */
            static const uint8_t ty[2] = {0x0E, 0x11}; static const size_t szs[3] = {1, 0, 0};
            size_t size = szi == 0 ? szs[0] : szi == 1 ? P : 2 * P + 7;
            vf_world_reset(); set_blob(0x0E, 3000); set_blob(0x11, 3000);
            if (how == 0) { if (ty[ti] == 0x0E) W.host.icon_ok = 0; else W.host.fname_ok = 0; }      /* getter fails */
            else set_blob(ty[ti], 0);                                                                   /* property empty */
            request(ty[ti], 0, 0, 0x0201, 0, 0, NULL, 1);        /* size 0: an empty answer is demanded */
            set_blob(ty[ti], size);                               /* the platform recovers / the property appears */
            pre_code = 4 + how;
            reassemble(ty[ti], size);
            pre_code = 0;
        }
        /* a Discover of the same mapper with a new generation in the middle of an icon transfer, icon replaced meanwhile */
        for (int tos = 0; tos < 2; tos++) {
            vf_world_reset(); set_blob(0x0E, 3000); set_blob(0x11, 3000);
            pre_code = 6; pre_steps(6, 0x0E, (uint8_t)tos);
            for (size_t off = P; off < 3000; off += P) request(0x0E, 3000, (uint16_t)off, (uint16_t)(0x0310 + off / P), (uint8_t)tos, 0, NULL, 1);
            pre_code = 0;
        }
        /* the interface's MTU is lowered in the middle of a session */
        if (A.mtu < 9216) for (int ti = 0; ti < 2; ti++) for (int fi = 0; fi < 2; fi++) for (int tos = 0; tos < 2; tos++) {
            static const uint8_t ty[2] = {0x0E, 0x11};
            vf_world_reset(); set_blob(0x0E, 20000); set_blob(0x11, 20000);
            pre_code = 7 + fi; pre_steps(pre_code, ty[ti], (uint8_t)tos);
            for (size_t off = 0; off < 20000; off += P) request(ty[ti], 20000, (uint16_t)off, (uint16_t)(0x0410 + off / P), (uint8_t)tos, 0, NULL, 1);
            pre_code = 0;
        }
        /* two stations: M2 is the active mapper (accepted Discover, own sequence numbers), then M1 requests a
         * large property: the response must carry THIS request's sequence number and the platform's bytes */
        for (int type_i = 0; type_i < 3; type_i++) for (int via = 0; via < 3; via++) for (int tos = 0; tos < 2; tos++) {
            static const uint8_t ty[3] = {0x0E, 0x11, 0x13};
            vf_world_reset(); set_blob(0x0E, 3000); set_blob(0x11, 3000); set_blob(0x13, 40);
            pre_code = via + 1; pre_steps(pre_code, ty[type_i], (uint8_t)tos);
            size_t size = ty[type_i] == 0x13 ? 40 : 3000;
            request(ty[type_i], size, 0, 0x0101, (uint8_t)tos, 0, NULL, 1);
            request(ty[type_i], size, (uint16_t)(size / 2), 0x7000, (uint8_t)tos, 1, NULL, 1);
            pre_code = 0;
        }
        vf_sample("icon/friendly name: %zu sizes (0..3, k*P-2..k*P+2, 32766..32768; P=%zu) x boundary offsets, ToS 0/1, direct/bridged; reassembly for each size", ns, P);
        vf_sample("hardware id: every even size 0..64 x offsets; all 256 property types x 4 offsets x 2 ToS x seq{0,1,0xFFFF} x direct/bridged; every sequence number 0..65535 x 3 properties x {first, inner chunk} x direct/bridged");
        R.exhaustive = 1;
    }
    R.evaluations = evals; R.wall_s = vf_now_s() - t0;
    vf_write_results();
    return 0;
}
