/* C13 - RepeatBand back-off follows its formula and is monotone in load.
 * Exhaustive input sweep of band_update_stats / band_choose_hello_time against a
 * 128-bit reference.  quick: r in [0,2^20) U boundary points U [2^32-2^16,2^32);
 * thorough: every r in [0,2^32), partitioned (--part/--nparts). */
#include "../mc/vf.h"
#include "../mc/darwin.h"
#include "lltdAutomata.h"

#include <string.h>

#define NMAX 10000u
#define ALPHA 45u

static uint64_t evals;
static int staged[4]; static int nstaged;

static uint32_t ref_ni(uint32_t r) {
    unsigned __int128 v = (unsigned __int128)ALPHA * r * r;
    return v > NMAX ? NMAX : (uint32_t)v;
}

static void cex_path(uint32_t r, int begun, uint32_t ni);
static e1_cfg pseudo;

static uint32_t one(uint32_t r, int begun, uint32_t prior) {
    band_state b; memset(&b, 0, sizeof b);
    b.r = r; b.begun = begun != 0; b.Ni = prior;
    band_update_stats(&b);
    evals++;
    uint32_t exp = (r > 0 && begun) ? ref_ni(r) : prior;
    if (b.Ni != exp) {
        cex_path(r, begun, prior);
        const char *cls = (r > 0 && begun) ? (b.Ni < ALPHA ? "ni-below-alpha" : b.Ni > NMAX ? "ni-above-nmax" : "ni-not-min(nmax,alpha*r^2)") : "ni-changed-without-load";
        char sig[80]; snprintf(sig, sizeof sig, "band:%s", cls);
        vf_violation(sig, "r=%u begun=%d prior Ni=%u: Ni becomes %u, the formula min(%u, %u*r^2) without wrap-around gives %u", r, begun, prior, b.Ni, NMAX, ALPHA, exp);
    }
    if (b.r != 0) { cex_path(r, begun, prior); vf_violation("band:r-not-reset", "r=%u: the block counter is %u after the block ended", r, b.r); }
    return b.Ni;
}

/* clock values: ordinary; 1296 ms before the millisecond clock passes 2^32 (49.7 days of uptime); 2 s after the clock started */
static const uint64_t ORG13[3] = {5000000ull, 4294966000ull, 2000ull};
static int org13;
static void check_choose(uint32_t ni) {
    band_state b; memset(&b, 0, sizeof b);
    b.Ni = ni; b.begun = true;
    W.now_ms = ORG13[org13];
    uint64_t now = W.now_ms;
    uint64_t t = band_choose_hello_time(&b);
    evals++;
    unsigned __int128 num = (unsigned __int128)4 * ni * 20; uint64_t need = (uint64_t)((num + 29) / 30);
    if (t != b.hello_timeout_ts || t < now || t - now < need) {
        cex_path(0xFFFFFFFFu, 2 + org13, ni);
        vf_violation("band:hello-scheduled-too-soon", "Ni=%u at clock %llu ms: next Hello scheduled %lld ms from now, the load formula ceil(4*Ni*20/30) demands at least %llu ms", ni, (unsigned long long)now, (long long)(t - now), (unsigned long long)need);
    }
    vf_outcome(vf_hash64(&need, 8, 77));
}

/* ---- end of block inside the periodic tick (automata_tick as the Darwin daemon wires it) ----
 * One pseudo-event = one tuple (prior Ni, r, begun, Hello timer, block timer, last transmit): the
 * enumeration automaton is put in Pausing with one incomplete session, the band fields are set, one
 * real tick runs.  When the block timer was due, r > 0 and enumeration had begun, the count must be
 * the formula's and the next Hello deadline at least the formula's interval for that count away. */
static const uint32_t T_NI[] = {45, 7, 2000, 8820, 10000};
static const uint32_t T_R[] = {0, 1, 2, 14, 15, 16, 100, 65535, 65536, 0xFFFFFFFFu};
static const int T_HELLO[] = {0, -1000, -1, 0x7FFF /* = now */, 1, 500};         /* 0: no deadline; else deadline - now (ms) */
static const int T_BLOCK[] = {-1, 0x7FFF, 1};
static const int T_LAST[] = {0, -1, -500, -999, -1000, -5000};                  /* 0: never sent; else last transmit - now */
#define NT_NI 5
#define NT_R 10
#define NT_H 6
#define NT_B 3
#define NT_L 6
#define NTICK (NT_NI * NT_R * 2 * NT_H * NT_B * NT_L)
static uint64_t rel_ts(uint64_t now, int d) { return d == 0x7FFF ? now : (uint64_t)((int64_t)now + d); }
static void tick_case(int code, int verbose) {
    int c = code % NTICK, org = code / NTICK;
    int li = c % NT_L; c /= NT_L; int bi = c % NT_B; c /= NT_B; int hi = c % NT_H; c /= NT_H;
    int begun = c % 2; c /= 2; int ri = c % NT_R; c /= NT_R; int ni = c % NT_NI;
    static dw_iface D;
    vf_world_reset(); W.now_ms = ORG13[org];
    dw_init(&D, 0);
    uint64_t now = W.now_ms;
    session_entry *e = session_table_add(D.sessionTable, vf_station[ST_M1], 0x1234, 1);
    if (!e) vf_harness_error("c13 tick: session_table_add failed");
    e->last_activity_ts = now / 1000; e->complete = false;
    session_table_update_complete_status(D.sessionTable);
    band_state *b = D.enumerationAutomata->extra;
    D.enumerationAutomata->current_state = 1; D.enumerationAutomata->last_ts = now / 1000;
    b->Ni = T_NI[ni]; b->r = T_R[ri]; b->begun = begun != 0;
    b->hello_timeout_ts = T_HELLO[hi] == 0 ? 0 : rel_ts(now, T_HELLO[hi]);
    b->block_timeout_ts = rel_ts(now, T_BLOCK[bi]);
    D.LastHelloTxMs = T_LAST[li] == 0 ? 0 : rel_ts(now, T_LAST[li]);
    int block_due = now >= b->block_timeout_ts;
    uint32_t calls0 = D.hello_calls;
    dw_tick(&D);
    evals++;
    int sent = D.hello_calls != calls0;
    uint32_t want = ref_ni(T_R[ri]);
    if (verbose) printf("    tick: prior Ni=%u r=%u begun=%d hello deadline %+d ms block deadline %+d ms last transmit %+d ms -> Ni=%u, next Hello in %lld ms, %s\n", T_NI[ni], T_R[ri], begun,
                        T_HELLO[hi] == 0x7FFF ? 0 : T_HELLO[hi], T_BLOCK[bi] == 0x7FFF ? 0 : T_BLOCK[bi], T_LAST[li], b->Ni, (long long)(b->hello_timeout_ts - now), sent ? "Hello sent" : "no Hello");
    if (D.enumerationAutomata->current_state == 0) vf_violation("band-tick:left-pausing-with-open-session", "the tick returned the enumeration automaton to Quiescent although an incomplete session exists");
    if (block_due) {
        if (T_R[ri] > 0 && begun) {
            if (b->Ni != want) vf_violation("band-tick:ni-not-formula", "block ended in the tick (r=%u, begun, prior Ni=%u, Hello %s in the same tick): Ni=%u, the formula gives %u", T_R[ri], T_NI[ni], sent ? "sent" : "not sent", b->Ni, want);
            unsigned __int128 num = (unsigned __int128)4 * b->Ni * 20; uint64_t need = (uint64_t)((num + 29) / 30);
            if (b->hello_timeout_ts < now || b->hello_timeout_ts - now < need)
                vf_violation(sent ? "band-tick:hello-too-soon-after-block:hello-sent-in-same-tick" : "band-tick:hello-too-soon-after-block", "block ended in the tick (r=%u, begun, prior Ni=%u -> Ni=%u, Hello %s in the same tick): the next Hello is %lld ms away, the load formula for that count demands at least %llu ms", T_R[ri], T_NI[ni], b->Ni, sent ? "sent" : "not sent", (long long)(b->hello_timeout_ts - now), (unsigned long long)need);
        } else if (!(T_R[ri] > 0 && sent) && b->Ni != T_NI[ni])
            vf_violation("band-tick:ni-changed-without-load", "block ended in the tick with r=%u begun=%d: Ni %u -> %u", T_R[ri], begun, T_NI[ni], b->Ni);
        if (b->r != 0) vf_violation("band-tick:r-not-reset", "block ended in the tick but r=%u", b->r);
    } else {
        if (b->Ni != T_NI[ni] || b->r != T_R[ri]) vf_violation("band-tick:stats-changed-before-block-end", "block timer not due but Ni %u -> %u, r %u -> %u", T_NI[ni], b->Ni, T_R[ri], b->r);
    }
    uint64_t o[3] = { b->Ni, b->hello_timeout_ts - now, (uint64_t)sent }; vf_outcome(vf_hash64(o, sizeof o, 13));
}
static void tk_name(int ev, char *buf, size_t cap) { snprintf(buf, cap, "tick-case(%d)", ev); }
static void tk_apply(int ev) { tick_case(ev, A.verbose); }
static e1_cfg tickcfg;

/* counterexample path: [r>>16, r&0xFFFF, begun, Ni] */
static void ps_name(int ev, char *buf, size_t cap) { snprintf(buf, cap, "arg(%d)", ev); }
static void ps_apply(int ev) {
    staged[nstaged++] = ev;
    if (nstaged < 4) return;
    nstaged = 0;
    uint32_t r = ((uint32_t)staged[0] << 16) | (uint32_t)staged[1];
    if (staged[2] >= 2) { org13 = staged[2] - 2; printf("    band_choose_hello_time(Ni=%d) at clock %llu ms\n", staged[3], (unsigned long long)ORG13[org13]); check_choose((uint32_t)staged[3]); org13 = 0; }
    else { uint32_t ni = one(r, staged[2], (uint32_t)staged[3]); printf("    band_update_stats(r=%u, begun=%d, Ni=%d) -> Ni=%u\n", r, staged[2], staged[3], ni); }
}
static void ps_root(void) { nstaged = 0; }
static void cex_path(uint32_t r, int begun, uint32_t ni) {
    static int p[4]; p[0] = (int)(r >> 16); p[1] = (int)(r & 0xFFFF); p[2] = begun; p[3] = (int)ni;
    e1_manual_path(&pseudo, p, 4);
}

static void sweep(uint64_t lo, uint64_t hi) {
    static const uint32_t priors[3] = {45, 10000, 7};
    for (int begun = 0; begun < 2; begun++) for (int pi = 0; pi < 3; pi++) {
        uint32_t prev = 0; int have_prev = 0;
        for (uint64_t r = lo; r < hi; r++) {
            uint32_t ni = one((uint32_t)r, begun, priors[pi]);
            if (begun && r > 0) {
                if (have_prev && ni < prev) { cex_path((uint32_t)r, begun, priors[pi]); vf_violation("band:not-monotone", "Ni(r=%llu)=%u is smaller than Ni(r=%llu)=%u: hearing more Hellos shortens the interval", (unsigned long long)r, ni, (unsigned long long)r - 1, prev); }
                prev = ni; have_prev = 1;
                if (ni < ALPHA || ni > NMAX) { cex_path((uint32_t)r, begun, priors[pi]); vf_violation("band:ni-out-of-range", "r=%llu: Ni=%u outside [%u,%u]", (unsigned long long)r, ni, ALPHA, NMAX); }
            }
            if ((r & 0xFFF) == 0 || r < 32) vf_outcome(vf_hash64(&ni, 4, (uint64_t)begun));
        }
    }
}

int main(int argc, char **argv) {
    vf_parse_args(argc, argv, "C13");
    vf_world_init(1500, 0, 0xA5);
    pseudo = (e1_cfg){ .nev = 1 << 16, .ev_name = ps_name, .apply = ps_apply, .root_setup = ps_root };
    tickcfg = (e1_cfg){ .nev = 3 * NTICK, .ev_name = tk_name, .apply = tk_apply };
    if (A.replay) { A.verbose = 1; static char fb[1 << 16]; FILE *f = fopen(A.replay, "r"); size_t n = f ? fread(fb, 1, sizeof fb - 1, f) : 0; fb[n] = 0; if (f) fclose(f);
                    return e1_replay_file(strstr(fb, "tick-case") ? &tickcfg : &pseudo, A.replay); }
    double t0 = vf_now_s();
    if (vf_thorough()) {
        uint64_t total = 1ull << 32, lo = total * (uint64_t)A.part / (uint64_t)A.nparts, hi = total * (uint64_t)(A.part + 1) / (uint64_t)A.nparts;
        if (lo > 0) lo--;          /* overlap by one so that monotonicity is checked across partition borders */
        sweep(lo, hi);
        vf_sample("band_update_stats for every r in [%llu, %llu) x begun{0,1} x prior Ni{45,10000,7}", (unsigned long long)lo, (unsigned long long)hi);
        R.exhaustive = 1;
    } else {
        sweep(0, 1ull << 20);
        sweep((1ull << 32) - (1ull << 16), 1ull << 32);
        for (int k = 1; k < 32; k++) {
            uint64_t c = 1ull << k; sweep(c - 2, c + 3);
            /* neighbourhood of ceil(sqrt(2^k/45)): where 45*r^2 crosses a power of two */
            uint64_t s = 1; while ((unsigned __int128)45 * s * s < ((unsigned __int128)1 << k)) s++;
            if (s > 3) sweep(s - 2, s + 3);
        }
        vf_sample("band_update_stats for r in [0,2^20), [2^32-2^16,2^32), 2^k-2..2^k+2, around sqrt(2^k/45), x begun{0,1} x prior Ni{45,10000,7}");
        R.exhaustive = 0; R.cap_hit = "quick tier: boundary-dense subset of r (thorough: all 2^32)";
    }
    if (A.part == 0) {
        /* the count is always within [ALPHA, NMAX]: that is the domain in which the schedule is demanded */
        for (org13 = 0; org13 < 3; org13++) for (uint32_t ni = ALPHA; ni <= NMAX; ni++) check_choose(ni);
        org13 = 0;
        vf_sample("band_choose_hello_time for every Ni in [45,10000] at clock {5000000, 2^32-1296, 2000} ms: scheduled - now >= ceil(4*Ni*20/30)");
    }
    if (A.part == 0) {
        for (int code = 0; code < 3 * NTICK; code++) {
            static int p[1]; p[0] = code; e1_manual_path(&tickcfg, p, 1);
            tick_case(code, 0);
        }
        vf_sample("%d ticks of the real automata_tick (Darwin wiring, enumeration Pausing, one incomplete session): prior Ni{45,7,2000,8820,10000} x r{0,1,2,14,15,16,100,65535,65536,2^32-1} x begun x Hello deadline{none,-1000,-1,now,+1,+500} x block deadline{-1,now,+1} x last transmit{never,-1,-500,-999,-1000,-5000} ms x clock {5000000, 2^32-1296, 2000} ms", 3 * NTICK);
    }
    R.evaluations = evals; R.wall_s = vf_now_s() - t0;
    vf_write_results();
    return 0;
}
