/* C12 - periodic Hellos are paced, purposeful and stop with the session.
 * E2: timed explicit-state exploration of the real lltdAutomata.c with the tick port wired as the
 * Darwin daemon does (last_hello_tx_ms shared, send_hello = monitor callback).
 * modes: narrow (API-level, few deltas, deep)     wide (API-level, full delta set, shallow)
 *        start  (wide alphabet from non-initial start state --a 1..7)
 *        map    (narrow + mapping-engine events)   flow (documented Darwin frame flow, driver B)
 * --b selects the clock origin (0: 1000000 ms; 1: 3000000 ms, same sub-second phase, must give the
 * same graph; 2: 3000500 ms, another phase of the millisecond/second clocks; 3: 4294965000 ms, same phase as 0,
 * the millisecond clock passes 2^32 within the first seconds of every history - must give the same graph; 4: 0 ms, the
 * clock has just started - must give the same graph). */
#include "../mc/darwin.h"

#include <stdlib.h>
#include <string.h>

static dw_iface D, D2;          /* D2: an idle second interface of the same responder; it only ever ticks */
static int is_flow;
static struct { uint64_t last_send_ms; uint8_t sent_any; uint64_t last_frame_ms; uint8_t frame_any; } MON;
/* reference session dictionary (API-level drivers): what the table SHOULD hold, independent of its slots */
static struct { uint8_t present[4], complete[4]; uint64_t last_s[4]; } RM;
static int rm_incomplete(void) { int n = 0; for (int k = 0; k < 4; k++) n += RM.present[k] && !RM.complete[k]; return n; }

/* -------------------------------------------------------------- monitors */
static void on_hello(dw_iface *d) {
    if (d != &D) { vf_violation("hello:sent-on-idle-interface", "periodic Hello at t=%llu ms on the second interface, which never saw a frame or a session", (unsigned long long)W.now_ms); return; }
    if (!W.in_tick) vf_violation("hello:sent-outside-tick", "send_hello entered outside automata_tick at t=%llu ms", (unsigned long long)W.now_ms);
    int incomplete = 0;
    for (int i = 0; i < SESSION_TABLE_MAX_ENTRIES; i++) { session_entry *e = &d->sessionTable->entries[i]; if (e->valid && !e->complete) incomplete++; }
    if (!incomplete) {
        int valid = 0; for (int i = 0; i < SESSION_TABLE_MAX_ENTRIES; i++) valid += d->sessionTable->entries[i].valid;
        vf_violation(valid ? "hello:sent-with-all-sessions-complete" : "hello:sent-with-empty-session-table", "periodic Hello at t=%llu ms although the session table holds %d sessions, none of them incomplete", (unsigned long long)W.now_ms, valid);
    }
    if (!rm_incomplete()) {
        int pres = 0; for (int k = 0; k < 4; k++) pres += RM.present[k];
        vf_violation(pres ? "hello:sent-with-all-sessions-complete(model)" : "hello:sent-with-empty-session-table(model)", "periodic Hello at t=%llu ms: by the operations performed so far the table holds %d sessions, none of them incomplete (the table's own slots say otherwise)", (unsigned long long)W.now_ms, pres);
    }
    if (MON.sent_any && W.now_ms - MON.last_send_ms < 1000)
        vf_violation("hello:less-than-1s-apart", "periodic Hello at t=%llu ms, only %llu ms after the previous one on this interface", (unsigned long long)W.now_ms, (unsigned long long)(W.now_ms - MON.last_send_ms));
    if (is_flow && MON.frame_any && W.now_ms - MON.last_frame_ms >= 30000)
        vf_violation("hello:sent-after-30s-of-silence", "periodic Hello at t=%llu ms, %llu ms after the last received frame: the mapping session saw no traffic for 30 s, its sessions must have been dropped", (unsigned long long)W.now_ms, (unsigned long long)(W.now_ms - MON.last_frame_ms));
    MON.last_send_ms = W.now_ms; MON.sent_any = 1;
}

/* -------------------------------------------------------------- alphabet */
static int DELTA[16]; static int NDELTA; static int NKEYS; static int WITH_MAP;
static uint8_t KMAC[4][6]; static uint16_t KGEN[4];
typedef struct evd { uint8_t kind; int arg; } evd;
enum { K_TICK2 = 100 };
enum { K_TICK, K_ADV, K_ADD, K_REFRESH2, K_COMPLETE, K_REMOVE, K_CLEAR, K_HELLO_RX, K_ENUM, K_BANDINIT, K_BEGUN, K_MAP_INACT, K_MAP,
       /* flow */ K_F_DISC, K_F_HELLO, K_F_RESET, K_F_CHARGE, K_F_EMIT };
static evd EV[96]; static int NEV;
static const char *ENUMEV[] = {"sess_complete", "sess_not_complete", "hello", "new_session"};

static void ev_name(int i, char *b, size_t cap) {
    evd e = EV[i];
    switch (e.kind) {
        case K_TICK: snprintf(b, cap, "tick"); break;
        case K_TICK2: snprintf(b, cap, "tick of the idle second interface"); break;
        case K_ADV: snprintf(b, cap, "advance %d ms", e.arg); break;
        case K_ADD: snprintf(b, cap, "session_table_add(K%d,seq=1)", e.arg); break;
        case K_REFRESH2: snprintf(b, cap, "session_table_add(K%d,seq=2)", e.arg); break;
        case K_COMPLETE: snprintf(b, cap, "complete(K%d)+update_complete_status", e.arg); break;
        case K_REMOVE: snprintf(b, cap, "session_table_remove(K%d)", e.arg); break;
        case K_CLEAR: snprintf(b, cap, "session_table_clear"); break;
        case K_HELLO_RX: snprintf(b, cap, "band_on_hello_received x%d", e.arg); break;
        case K_ENUM: snprintf(b, cap, "switch_state_enumeration(%s)", ENUMEV[e.arg]); break;
        case K_BANDINIT: snprintf(b, cap, "band_init_stats+band_choose_hello_time"); break;
        case K_BEGUN: snprintf(b, cap, "begun=true"); break;
        case K_MAP_INACT: snprintf(b, cap, "mapping_reset_inactive_timeout"); break;
        case K_MAP: snprintf(b, cap, "switch_state_mapping(opcode %d)", e.arg); break;
        case K_F_DISC: snprintf(b, cap, "frame Discover(from %s, %s, gen %d)", (e.arg & 1) ? "M2" : "M1", (e.arg & 2) ? "acknowledging" : "not acknowledging", (e.arg & 4) ? 2 : 1); break;
        case K_F_HELLO: snprintf(b, cap, "frame Hello heard"); break;
        case K_F_RESET: snprintf(b, cap, "frame Reset"); break;
        case K_F_CHARGE: snprintf(b, cap, "frame Charge"); break;
        case K_F_EMIT: snprintf(b, cap, "frame Emit"); break;
    }
}

static void rm_tick(void) {        /* what a tick does to the sessions, by the statement: 30 s without traffic drops them all, 60 s idle expires one */
    mapping_state *ms = D.mappingAutomata->extra; uint64_t ns = W.now_ms / 1000;
    if (ms->inactive_timeout_ts != 0 && ns >= ms->inactive_timeout_ts) memset(&RM, 0, sizeof RM);
    for (int k = 0; k < 4; k++) if (RM.present[k] && ns > RM.last_s[k] + 60) RM.present[k] = 0;
}
static void frame(uint8_t opcode, int m2, int ack, int gen2) {
    static uint8_t buf[1600]; memset(buf, 0, 128);
    const uint8_t *src = vf_station[m2 ? ST_M2 : ST_M1];
    fb_base(buf, vf_station[ST_BC], src, 0, opcode, vf_station[ST_BC], src, 1);
    if (opcode == 0x00) { buf[32] = 0; buf[33] = (uint8_t)(gen2 ? 2 : 1); buf[34] = 0; buf[35] = 1; memcpy(buf + 36, ack ? W.iface[0].mac : vf_station[ST_PEER], 6); }
    MON.last_frame_ms = W.now_ms; MON.frame_any = 1;
    /* the frame-processing flow up to (not including) its closing tick, then the reference dictionary, then the tick */
    uint8_t prev = D.mappingAutomata->current_state;
    D.defer_tick = 1;
    dw_frame(&D, buf, opcode == 0x00 ? 42 : 32);
    if (opcode == 0x00) {
        int k = gen2 ? 2 : (m2 ? 1 : 0);
        if (!RM.present[k]) { RM.present[k] = 1; RM.complete[k] = 0; }
        RM.last_s[k] = W.now_ms / 1000; if (ack) RM.complete[k] = 1;
    } else if (opcode == 0x08) memset(&RM, 0, sizeof RM);
    if (prev != 0 && D.mappingAutomata->current_state == 0) memset(&RM, 0, sizeof RM);      /* mapping session ended: sessions dropped (darwin-main.c:349) */
    rm_tick();
    dw_tick(&D);
}

static void apply(int i) {
    evd e = EV[i];
    band_state *band = D.enumerationAutomata->extra; mapping_state *ms = D.mappingAutomata->extra;
    switch (e.kind) {
        case K_TICK: rm_tick(); dw_tick(&D); break;
        case K_TICK2: dw_tick(&D2); break;
        case K_ADV: W.now_ms += (uint64_t)e.arg; break;
        case K_ADD: case K_REFRESH2:
            session_table_add(D.sessionTable, KMAC[e.arg], KGEN[e.arg], e.kind == K_ADD ? 1 : 2);
            if (!RM.present[e.arg]) { RM.present[e.arg] = 1; RM.complete[e.arg] = 0; } RM.last_s[e.arg] = W.now_ms / 1000; break;
        case K_COMPLETE: { session_entry *s = session_table_find(D.sessionTable, KMAC[e.arg], KGEN[e.arg], 0); if (s) s->complete = true; session_table_update_complete_status(D.sessionTable); if (RM.present[e.arg]) RM.complete[e.arg] = 1; break; }
        case K_REMOVE: session_table_remove(D.sessionTable, KMAC[e.arg], KGEN[e.arg]); RM.present[e.arg] = 0; break;
        case K_CLEAR: session_table_clear(D.sessionTable); memset(&RM, 0, sizeof RM); break;
        case K_HELLO_RX: for (int k = 0; k < e.arg; k++) band_on_hello_received(band); break;
        case K_ENUM: switch_state_enumeration(D.enumerationAutomata, e.arg, "api"); break;
        case K_BANDINIT: band_init_stats(band); band_choose_hello_time(band); break;
        case K_BEGUN: band->begun = true; break;
        case K_MAP_INACT: mapping_reset_inactive_timeout(ms); break;
        case K_MAP: {
            uint8_t prev = D.mappingAutomata->current_state;
            switch_state_mapping(D.mappingAutomata, e.arg, "api");
            if (prev != 0 && D.mappingAutomata->current_state == 0) { session_table_clear(D.sessionTable); memset(&RM, 0, sizeof RM); }   /* darwin-main.c:349 */
            break; }
        case K_F_DISC: frame(0x00, e.arg & 1, (e.arg & 2) != 0, (e.arg & 4) != 0); break;
        case K_F_HELLO: frame(0x01, 0, 0, 0); break;
        case K_F_RESET: frame(0x08, 0, 0, 0); break;
        case K_F_CHARGE: frame(0x09, 0, 0, 0); break;
        case K_F_EMIT: frame(0x02, 0, 0, 0); break;
    }
}

static void build_alphabet(const char *mode) {
    static const int narrow[] = {100, 300, 1000, 27000, 61000};
    static const int wide[] = {1, 99, 100, 300, 999, 1000, 1001, 5000, 26667, 30000, 60001, 120000};
    static const int mapd[] = {100, 1000, 31000, 61000};
    int w = !strcmp(mode, "wide") || !strcmp(mode, "start");
    const int *d = w ? wide : !strcmp(mode, "map") ? mapd : narrow;
    NDELTA = w ? 12 : !strcmp(mode, "map") ? 4 : 5;
    memcpy(DELTA, d, sizeof(int) * (size_t)NDELTA);
    NKEYS = w ? 4 : 2;
    WITH_MAP = !strcmp(mode, "map") || w;
    is_flow = !strcmp(mode, "flow");
    memcpy(KMAC[0], vf_station[ST_M1], 6); KGEN[0] = 1; memcpy(KMAC[1], vf_station[ST_M2], 6); KGEN[1] = 1;
    memcpy(KMAC[2], vf_station[ST_M1], 6); KGEN[2] = 2; memcpy(KMAC[3], vf_station[ST_M3], 6); KGEN[3] = 1;
    NEV = 0;
#define ADD(k, a) do { EV[NEV].kind = (k); EV[NEV].arg = (a); NEV++; } while (0)
    ADD(K_TICK, 0); ADD(K_TICK2, 0);
    for (int i = 0; i < NDELTA; i++) ADD(K_ADV, DELTA[i]);
    if (is_flow) {
        ADD(K_F_DISC, 0); ADD(K_F_DISC, 2); ADD(K_F_DISC, 1); ADD(K_F_DISC, 4 | 2);
        ADD(K_F_HELLO, 0); ADD(K_F_RESET, 0); ADD(K_F_CHARGE, 0); ADD(K_F_EMIT, 0);
        return;
    }
    for (int k = 0; k < NKEYS; k++) ADD(K_ADD, k);
    ADD(K_REFRESH2, 0);
    for (int k = 0; k < NKEYS; k++) ADD(K_COMPLETE, k);
    for (int k = 0; k < NKEYS; k++) ADD(K_REMOVE, k);
    ADD(K_CLEAR, 0);
    ADD(K_HELLO_RX, 1); ADD(K_HELLO_RX, 16);
    for (int e = 0; e < 4; e++) ADD(K_ENUM, e);
    ADD(K_BANDINIT, 0); ADD(K_BEGUN, 0);
    if (WITH_MAP) { ADD(K_MAP_INACT, 0); ADD(K_MAP, 0x00); ADD(K_MAP, 0x08); ADD(K_MAP, 0x02); }
#undef ADD
}

/* -------------------------------------------------------------- state */
typedef struct cstate {
    uint64_t now_ms;
    uint64_t am_last, ae_last, as_last; uint8_t am_cs, ae_cs, as_cs;
    band_state band; mapping_state ms;
    session_entry ent[4]; uint8_t slot[4], nent; uint8_t count, all_complete;       /* the (at most four) live entries with their slot numbers: independent of which slots the table uses */
    uint64_t last_hello_tx; uint32_t hello_calls;
    uint64_t mon_last; uint8_t mon_any; uint64_t mon_frame; uint8_t mon_frame_any;
    uint8_t rm_present[4], rm_complete[4]; uint64_t rm_last[4];
} cstate;

static void save(uint8_t *buf) {
    cstate c; memset(&c, 0, sizeof c);
    c.now_ms = W.now_ms;
    c.am_last = D.mappingAutomata->last_ts; c.am_cs = D.mappingAutomata->current_state;
    c.ae_last = D.enumerationAutomata->last_ts; c.ae_cs = D.enumerationAutomata->current_state;
    c.as_last = D.sessionAutomata->last_ts; c.as_cs = D.sessionAutomata->current_state;
    c.band = *(band_state *)D.enumerationAutomata->extra; c.ms = *(mapping_state *)D.mappingAutomata->extra;
    for (int i = 0; i < SESSION_TABLE_MAX_ENTRIES; i++) if (D.sessionTable->entries[i].valid) {
        if (c.nent >= 4) vf_harness_error("C12: more than four live table entries");
        c.ent[c.nent] = D.sessionTable->entries[i]; c.slot[c.nent] = (uint8_t)i; c.nent++;
    }
    c.count = D.sessionTable->count; c.all_complete = D.sessionTable->all_complete;
    c.last_hello_tx = D.LastHelloTxMs; c.hello_calls = D.hello_calls;
    c.mon_last = MON.last_send_ms; c.mon_any = MON.sent_any; c.mon_frame = MON.last_frame_ms; c.mon_frame_any = MON.frame_any;
    memcpy(c.rm_present, RM.present, 4); memcpy(c.rm_complete, RM.complete, 4); memcpy(c.rm_last, RM.last_s, sizeof c.rm_last);
    memcpy(buf, &c, sizeof c);
}
static void restore(const uint8_t *buf) {
    cstate c; memcpy(&c, buf, sizeof c);
    W.now_ms = c.now_ms;
    D.mappingAutomata->last_ts = c.am_last; D.mappingAutomata->current_state = c.am_cs;
    D.enumerationAutomata->last_ts = c.ae_last; D.enumerationAutomata->current_state = c.ae_cs;
    D.sessionAutomata->last_ts = c.as_last; D.sessionAutomata->current_state = c.as_cs;
    *(band_state *)D.enumerationAutomata->extra = c.band; *(mapping_state *)D.mappingAutomata->extra = c.ms;
    memset(D.sessionTable->entries, 0, sizeof D.sessionTable->entries);
    for (int i = 0; i < c.nent; i++) D.sessionTable->entries[c.slot[i]] = c.ent[i];
    D.sessionTable->count = c.count; D.sessionTable->all_complete = c.all_complete;
    D.LastHelloTxMs = c.last_hello_tx; D.hello_calls = c.hello_calls;
    MON.last_send_ms = c.mon_last; MON.sent_any = c.mon_any; MON.last_frame_ms = c.mon_frame; MON.frame_any = c.mon_frame_any;
    memcpy(RM.present, c.rm_present, 4); memcpy(RM.complete, c.rm_complete, 4); memcpy(RM.last_s, c.rm_last, sizeof c.rm_last);
}

static int64_t relclamp(uint64_t ts, uint64_t now, int64_t lo, int64_t hi) { int64_t d = (int64_t)ts - (int64_t)now; return d < lo ? lo : d > hi ? hi : d; }
#define PUT(v) do { int64_t _v = (int64_t)(v); memcpy(out + n, &_v, 4); n += 4; } while (0)
static size_t key(uint8_t *out, size_t cap) {
    (void)cap; size_t n = 0;
    uint64_t now = W.now_ms, ns = now / 1000;
    band_state *b = D.enumerationAutomata->extra; mapping_state *ms = D.mappingAutomata->extra;
    PUT(now % 1000);
    PUT(D.mappingAutomata->current_state); PUT(-relclamp(D.mappingAutomata->last_ts, ns, -31, 0));
    PUT(ms->ctc); PUT(ms->charge_timeout_ts ? relclamp(ms->charge_timeout_ts, ns, -1, 2) : 99); PUT(ms->inactive_timeout_ts ? relclamp(ms->inactive_timeout_ts, ns, -1, 31) : 99);
    PUT(D.enumerationAutomata->current_state);
    PUT(D.sessionAutomata->current_state); PUT(-relclamp(D.sessionAutomata->last_ts, ns, -2, 0));
    PUT(b->Ni); PUT(b->r > 16 ? 16 : b->r); PUT(b->begun);
    PUT(b->hello_timeout_ts ? relclamp(b->hello_timeout_ts, now, -1, 30000) : 99999);
    PUT(b->block_timeout_ts ? relclamp(b->block_timeout_ts, now, -1, 1001) : 99999);
    PUT(D.LastHelloTxMs ? -relclamp(D.LastHelloTxMs, now, -1000, 0) : 99999);
    PUT(MON.sent_any ? -relclamp(MON.last_send_ms, now, -1000, 0) : 99999);
    PUT(MON.frame_any ? -relclamp(MON.last_frame_ms, now, -30000, 0) : 99999);
    for (int k = 0; k < 4; k++) { PUT(RM.present[k]); if (RM.present[k]) { PUT(RM.complete[k]); PUT(-relclamp(RM.last_s[k], ns, -61, 0)); } }
    PUT(D.sessionTable->count); PUT(D.sessionTable->all_complete);
    for (int i = 0; i < SESSION_TABLE_MAX_ENTRIES; i++) {
        session_entry *e = &D.sessionTable->entries[i];
        if (!e->valid) continue;
        PUT(i);
        PUT(e->mapper_mac[0] * 256 + e->mapper_mac[5]); PUT(e->generation); PUT(e->seq_number); PUT(e->complete); PUT(e->state);
        PUT(-relclamp(e->last_activity_ts, ns, -61, 0));
    }
    return n;
}
static uint64_t obs(void) { return 0x4000u + D.hello_calls * 0x9E3779B1u + D.enumerationAutomata->current_state; }

/* start states reached by legal prefixes (mode start, --a 1..7) */
static void root_setup(void) {
    dw_init(&D, 0); dw_init(&D2, 1);
    memset(&MON, 0, sizeof MON); memset(&RM, 0, sizeof RM);
    dw_on_hello = on_hello;
    band_state *band = D.enumerationAutomata->extra; mapping_state *ms = D.mappingAutomata->extra;
    long s = A.a;
    if (s <= 0) return;
    if (s == 7) { switch_state_mapping(D.mappingAutomata, 0x00, "pre"); mapping_reset_inactive_timeout(ms); }
    session_table_add(D.sessionTable, KMAC[0], KGEN[0], 1); RM.present[0] = 1; RM.complete[0] = 0; RM.last_s[0] = W.now_ms / 1000;
    band_init_stats(band); band_choose_hello_time(band);
    switch_state_enumeration(D.enumerationAutomata, enum_new_session, "pre");            /* 1: Pausing just armed */
    if (s == 4) { D.sessionTable->entries[0].complete = true; RM.complete[0] = 1; session_table_update_complete_status(D.sessionTable); dw_tick(&D); return; }   /* 4: Wait */
    if (s >= 2) { W.now_ms += 1000; dw_tick(&D); }                                        /* 2: immediately after a periodic Hello */
    if (s == 3) { W.now_ms += 300; dw_tick(&D); }                                         /* 3: block timeout re-armed the timer */
    if (s == 5) { W.now_ms += 61000; RM.present[0] = 0; dw_tick(&D); }                                       /* 5: emptied by expiry */
    if (s == 6) { session_table_clear(D.sessionTable); memset(&RM, 0, sizeof RM); }                                      /* 6: emptied by Reset */
    if (s == 7) { W.now_ms += 31000; memset(&RM, 0, sizeof RM); dw_tick(&D); }                                       /* 7: emptied by the 30 s mapping timeout */
}

int main(int argc, char **argv) {
    vf_parse_args(argc, argv, "C12");
    vf_world_init(1500, 0, (uint8_t)A.fill);
    extern uint64_t vf_clock_origin; vf_clock_origin = A.b == 4 ? 0ull /* the clock has just started: every deadline and time-stamp sentinel (0 = not armed) is at its edge */ : A.b == 1 ? 3000000ull : A.b == 2 ? 3000500ull : A.b == 3 ? 4294965000ull /* 2296 ms before the millisecond clock passes 2^32 (49.7 days of uptime) */ : 1000000ull;
    build_alphabet(A.mode);
    e1_cfg cfg = { .nev = NEV, .ev_name = ev_name, .apply = apply, .root_setup = root_setup,
                   .state_size = sizeof(cstate), .save = save, .restore = restore,
                   .extra_key = key, .no_heap_key = 1, .no_model_key = 1, .obs_hash = obs,
                   .deadline_s = A.deadline, .max_depth = (int)A.depth, .prune_on_violation = 1 };
    if (A.replay) { A.verbose = 1; return e1_replay_file(&cfg, A.replay); }
    double t0 = vf_now_s();
    e1_stats st; e1_run(&cfg, &st);
    R.states = st.states; R.transitions = st.transitions; R.evaluations = st.transitions; R.max_depth = st.max_depth;
    R.fixpoint = st.fixpoint; R.exhaustive = st.fixpoint; R.cap_hit = st.cap;
    vf_extra("alphabet", "%d events, %d clock deltas, %d session keys, mapping events %d, driver %s, start state %ld, clock origin %llu ms", NEV, NDELTA, NKEYS, WITH_MAP, is_flow ? "B (documented frame flow)" : "A (API level)", A.a, (unsigned long long)vf_clock_origin);
    vf_extra("origin_signature", "%llu:%llu:%016llx", (unsigned long long)st.states, (unsigned long long)st.transitions, (unsigned long long)st.out_hash);
    vf_extra("hash_compaction", "visited set stores 128-bit hashes; collision probability below 1e-20 at 1e8 states");
    R.wall_s = vf_now_s() - t0;
    vf_write_results();
    return 0;
}
