/* C16 - the session table stays consistent under any sequence of operations.
 * E1 over the real 16-slot table with a time-abstracted key, in product with a dictionary model.
 * a = key set (0: (M1,g1) (M1,g2) (M2,g1);  1: (M1,g1) (M1,g2) (M3,g1))
 * b = 0: fixpoint with advances {30,31,61} s;  1: depth-bounded run that adds {1,59,60} s
 * start states: the empty table and 60 near-full layouts built through the real add/remove
 * (12..16 fillers x hole none/first/middle/last x fresh/half 61 s old, every third filler complete; 20 more with every filler complete). */
#include "../mc/vf.h"
#include "lltdAutomata.h"

#include <stdlib.h>
#include <string.h>

#define NPK 3
#define NFILL 16
#define CAP 16
static session_table *T;
typedef struct mentry { uint8_t used, seq, complete; uint64_t last; } mentry;
static struct model { mentry e[NPK + NFILL]; } M;

static uint8_t KMAC[NPK + NFILL][6]; static uint16_t KGEN[NPK + NFILL];
static int start_cfg;

static void key_setup(void) {
    memcpy(KMAC[0], vf_station[ST_M1], 6); KGEN[0] = 0x0101;
    memcpy(KMAC[1], vf_station[ST_M1], 6); KGEN[1] = 0x0102;
    memcpy(KMAC[2], vf_station[A.a == 1 ? ST_M3 : ST_M2], 6); KGEN[2] = 0x0101;
    if (A.a == 1) { memcpy(KMAC[2], vf_station[ST_M1], 6); KGEN[2] = 0x0201; }      /* second key set: one mapper, generations that differ in the low byte (0x0101 / 0x0102) and in the high byte only (0x0101 / 0x0201) */
    for (int i = 0; i < NFILL; i++) { uint8_t m[6] = {0x00, 0xaa, 0xbb, 0xcc, 0xdd, (uint8_t)i}; memcpy(KMAC[NPK + i], m, 6); KGEN[NPK + i] = (uint16_t)(100 + i); }
}
static int msize(void) { int n = 0; for (int i = 0; i < NPK + NFILL; i++) n += M.e[i].used; return n; }
static uint64_t now_s(void) { return W.now_ms / 1000; }

/* events */
enum { OP_ADD = 0, OP_FIND = 6, OP_REMOVE = 9, OP_CLEAR = 12, OP_COMPLETE = 13, OP_TICK = 16, OP_ADV = 17, OP_RMFILL = 23, OP_N = 26 };
static const int ADV[6] = {30, 31, 61, 1, 59, 60};
static int fill_first, fill_mid, fill_last;     /* filler key ids targeted by OP_RMFILL */

static void op_name(int ev, char *b, size_t cap) {
    if (ev < OP_FIND) snprintf(b, cap, "add(K%d,seq=%d)", ev / 2, ev % 2 + 1);
    else if (ev < OP_REMOVE) snprintf(b, cap, "find(K%d)", ev - OP_FIND);
    else if (ev < OP_CLEAR) snprintf(b, cap, "remove(K%d)", ev - OP_REMOVE);
    else if (ev == OP_CLEAR) snprintf(b, cap, "clear");
    else if (ev < OP_TICK) snprintf(b, cap, "complete(K%d)", ev - OP_COMPLETE);
    else if (ev == OP_TICK) snprintf(b, cap, "tick");
    else if (ev < OP_RMFILL) snprintf(b, cap, "advance %d s", ADV[ev - OP_ADV]);
    else snprintf(b, cap, "remove(filler %s)", ev == OP_RMFILL ? "first" : ev == OP_RMFILL + 1 ? "middle" : "last");
}
static int op_enabled(int ev) {
    if (ev >= OP_ADV + 3 && ev < OP_RMFILL) return A.b == 1;
    if (ev >= OP_RMFILL) return start_cfg > 0;
    if (start_cfg > 0) {
        /* near-full layouts: two probe keys and a reduced clock alphabet keep the product closable
         * (the fillers' ages and the punched holes already multiply the space) */
        if (ev < OP_FIND) return ev == 0 || ev == 1 || ev == 2 || ev == 4;     /* add(K0,1) add(K0,2) add(K1,1) add(K2,1) */
        if (ev >= OP_COMPLETE && ev < OP_TICK) return ev != OP_COMPLETE + 1;
        if (ev == OP_ADV) return 0;                                             /* 30 s */
    }
    return 1;
}

static size_t table_key(uint8_t *out, size_t cap) {
    (void)cap; size_t n = 0; uint64_t now = now_s();
    out[n++] = T->count; out[n++] = T->all_complete;
    for (int i = 0; i < SESSION_TABLE_MAX_ENTRIES; i++) {
        session_entry *e = &T->entries[i];
        out[n++] = e->valid;
        if (!e->valid) continue;
        memcpy(out + n, e->mapper_mac, 6); n += 6; out[n++] = (uint8_t)(e->generation >> 8); out[n++] = (uint8_t)e->generation;
        out[n++] = (uint8_t)e->seq_number; out[n++] = e->complete;
        uint64_t age = now - e->last_activity_ts; if (age > 62) age = 62; out[n++] = (uint8_t)age;
    }
    return n;
}

static void invariants(const char *op) {
    int valid = 0, all_c = 1;
    for (int i = 0; i < SESSION_TABLE_MAX_ENTRIES; i++) {
        session_entry *e = &T->entries[i];
        if (!e->valid) continue;
        valid++;
        for (int j = 0; j < i; j++) { session_entry *f = &T->entries[j]; if (f->valid && !memcmp(f->mapper_mac, e->mapper_mac, 6) && f->generation == e->generation) vf_violation("table:duplicate-session", "after %s: slots %d and %d both hold (mac ..%02x, generation %u)", op, j, i, e->mapper_mac[5], e->generation); }
        int k; for (k = 0; k < NPK + NFILL; k++) if (!memcmp(KMAC[k], e->mapper_mac, 6) && KGEN[k] == e->generation) break;
        if (k == NPK + NFILL || !M.e[k].used) { vf_violation("table:phantom-session", "after %s: slot %d holds a session the dictionary does not (mac ..%02x gen %u)", op, i, e->mapper_mac[5], e->generation); continue; }
        if ((uint8_t)e->seq_number != M.e[k].seq) vf_violation("table:wrong-seq", "after %s: session K%d has sequence number %u, expected %u", op, k, e->seq_number, M.e[k].seq);
        if (e->complete != (M.e[k].complete != 0)) vf_violation("table:wrong-complete-flag", "after %s: session K%d complete=%d, expected %d", op, k, e->complete, M.e[k].complete);
        if (e->last_activity_ts != M.e[k].last) vf_violation("table:wrong-activity-time", "after %s: session K%d last activity %llu s, expected %llu s (now %llu)", op, k, (unsigned long long)e->last_activity_ts, (unsigned long long)M.e[k].last, (unsigned long long)now_s());
    }
    for (int k = 0; k < NPK + NFILL; k++) if (M.e[k].used && !M.e[k].complete) all_c = 0;
    int ms = msize();
    if (valid != ms) vf_violation("table:session-lost-or-extra", "after %s: %d live slots, the dictionary holds %d sessions", op, valid, ms);
    if (T->count != valid) vf_violation("table:count-mismatch", "after %s: count=%u but %d live slots", op, T->count, valid);
    if (valid > CAP) vf_violation("table:over-capacity", "after %s: %d sessions", op, valid);
    if (session_table_is_empty(T) != (ms == 0)) vf_violation("table:is-empty-wrong", "after %s: is_empty()=%d with %d sessions", op, session_table_is_empty(T), ms);
    if (session_table_all_complete(T) != (all_c != 0)) vf_violation("table:all-complete-wrong", "after %s: all_complete()=%d but the live sessions imply %d", op, session_table_all_complete(T), all_c);
}

static void do_add(int k, uint16_t seq, const char *nm) {
    uint8_t before[600], after[600]; size_t nb = table_key(before, sizeof before);
    session_entry *e = session_table_add(T, KMAC[k], KGEN[k], seq);
    int expect_ok = M.e[k].used || msize() < CAP;
    if (expect_ok) { if (!M.e[k].used) { M.e[k].used = 1; M.e[k].complete = 0; } M.e[k].seq = (uint8_t)seq; M.e[k].last = now_s(); }
    if ((e != NULL) != expect_ok) vf_violation(expect_ok ? "table:add-fails-with-room" : "table:add-succeeds-when-full", "%s returned %s with %d sessions in the table", nm, e ? "an entry" : "NULL", msize());
    if (e && (memcmp(e->mapper_mac, KMAC[k], 6) || e->generation != KGEN[k])) vf_violation("table:add-returns-wrong-entry", "%s returned an entry for another key", nm);
    if (!expect_ok) { size_t na = table_key(after, sizeof after); if (na != nb || memcmp(before, after, na)) vf_violation("table:failed-add-disturbs-table", "%s failed (table full) but changed the table", nm); }
}

static void apply(int ev) {
    char nm[64]; op_name(ev, nm, sizeof nm);
    if (ev < OP_FIND) do_add(ev / 2, (uint16_t)(ev % 2 + 1), nm);
    else if (ev < OP_REMOVE) {
        int k = ev - OP_FIND; session_entry *e = session_table_find(T, KMAC[k], KGEN[k], 0);
        if ((e != NULL) != (M.e[k].used != 0)) vf_violation("table:find-wrong", "%s returned %s, the dictionary %s the key", nm, e ? "an entry" : "NULL", M.e[k].used ? "holds" : "does not hold");
        if (e && (memcmp(e->mapper_mac, KMAC[k], 6) || e->generation != KGEN[k])) vf_violation("table:find-returns-wrong-entry", "%s returned an entry for another key (mac ..%02x gen %u)", nm, e->mapper_mac[5], e->generation);
    } else if (ev < OP_CLEAR) { int k = ev - OP_REMOVE; session_table_remove(T, KMAC[k], KGEN[k]); M.e[k].used = 0; }
    else if (ev == OP_CLEAR) { session_table_clear(T); memset(&M, 0, sizeof M); }
    else if (ev < OP_TICK) {
        int k = ev - OP_COMPLETE; session_entry *e = session_table_find(T, KMAC[k], KGEN[k], 0);
        if (e) { e->complete = true; session_table_update_complete_status(T); }
        if (M.e[k].used) M.e[k].complete = 1;
    } else if (ev == OP_TICK) {
        automata_tick(NULL, NULL, T, NULL);
        for (int k = 0; k < NPK + NFILL; k++) if (M.e[k].used && now_s() > M.e[k].last + 60) M.e[k].used = 0;
    } else if (ev < OP_RMFILL) { W.now_ms += (uint64_t)ADV[ev - OP_ADV] * 1000; return; }
    else { int k = ev == OP_RMFILL ? fill_first : ev == OP_RMFILL + 1 ? fill_mid : fill_last; session_table_remove(T, KMAC[k], KGEN[k]); M.e[k].used = 0; }
    invariants(nm);
}

/* start layouts: cfg 0 = empty; cfg 1..40 = n in 12..16 fillers x hole {none,first,middle,last} x {all fresh, first half 61 s old} */
static void root_setup(void) {
    T = session_table_create();
    if (!T) vf_harness_error("session_table_create failed");
    memset(&M, 0, sizeof M);
    if (start_cfg == 0) return;
    int c = start_cfg - 1; int n = 12 + c % 5; int hole = (c / 5) % 4; int old = (c / 20) % 2; int allc = c / 40;   /* cfg 41..60: every filler complete */
    fill_first = NPK; fill_mid = NPK + n / 2; fill_last = NPK + n - 1;
    for (int i = 0; i < n; i++) {
        if (old && i == n / 2) W.now_ms += 61000;
        int k = NPK + i; session_entry *e = session_table_add(T, KMAC[k], KGEN[k], 1);
        if (!e) vf_harness_error("prefill add failed");
        M.e[k].used = 1; M.e[k].seq = 1; M.e[k].last = now_s();
        if (allc || i % 3 == 0) { e->complete = true; M.e[k].complete = 1; }
    }
    session_table_update_complete_status(T);
    if (hole) { int k = hole == 1 ? fill_first : hole == 2 ? fill_mid : fill_last; session_table_remove(T, KMAC[k], KGEN[k]); M.e[k].used = 0; }
}
static uint64_t obs(void) { return 0x3000u + T->count * 17u + T->all_complete; }

int main(int argc, char **argv) {
    vf_parse_args(argc, argv, "C16");
    vf_world_init(1500, 0, (uint8_t)A.fill);
    key_setup();
    e1_cfg cfg = { .nev = OP_N, .ev_name = op_name, .apply = apply, .enabled = op_enabled, .root_setup = root_setup, .model = &M, .model_size = sizeof M,
                   .extra_key = table_key, .no_heap_key = 1, .no_model_key = 1, .obs_hash = obs, .deadline_s = A.deadline, .prune_on_violation = 1,
                   .max_depth = A.b == 1 ? (A.depth > 0 ? (int)A.depth : 6) : 0 };
    if (A.replay) {
        A.verbose = 1;
        FILE *f = fopen(A.replay, "r"); static char buf[1 << 16]; size_t n = f ? fread(buf, 1, sizeof buf - 1, f) : 0; buf[n] = 0; if (f) fclose(f);
        char *p = strstr(buf, "\"start_cfg\":"); start_cfg = p ? atoi(p + 12) : 0;
        return e1_replay_file(&cfg, A.replay);
    }
    double t0 = vf_now_s();
    int lo = (int)A.part, step = A.nparts;
    e1_stats tot; memset(&tot, 0, sizeof tot); tot.fixpoint = 1;
    int ncfg = 0;
    for (start_cfg = lo; start_cfg <= 60; start_cfg += step) {
        if (A.b == 1 && start_cfg > 0 && start_cfg % 7 != 1) continue;     /* depth-bounded off-by-one run: empty + a few layouts */
        char extra[48]; snprintf(extra, sizeof extra, "\"start_cfg\":%d", start_cfg);
        extern const char *vf_cex_extra; vf_cex_extra = extra;
        e1_stats st; e1_run(&cfg, &st);
        tot.states += st.states; tot.transitions += st.transitions; if (st.max_depth > tot.max_depth) tot.max_depth = st.max_depth;
        tot.fixpoint = tot.fixpoint && st.fixpoint; if (st.cap) tot.cap = st.cap; tot.pruned += st.pruned;
        ncfg++;
        if (vf_violation_events && vf_now_s() - vf_first_violation_t > VF_GRACE_AFTER_VIOLATION_S) break;
        if (vf_now_s() - t0 > A.deadline) { tot.fixpoint = 0; tot.cap = "deadline"; break; }
    }
    R.states = tot.states; R.transitions = tot.transitions; R.evaluations = tot.transitions; R.max_depth = tot.max_depth;
    R.fixpoint = tot.fixpoint; R.exhaustive = tot.fixpoint; R.cap_hit = tot.cap;
    vf_extra("start_layouts", "%d start layouts explored (0 = empty table; 1..40 = 12..16 fillers x hole none/first/middle/last x fresh/half 61 s old; 41..60 = the same with every filler complete)", ncfg);
    R.wall_s = vf_now_s() - t0;
    vf_write_results();
    return 0;
}
