/* Protocol-level closures over the real parseFrame:
 *  mode c02: every transmitted frame is well-formed, bounded, solicited, and independent of the
 *            byte pattern of fresh allocations (two complete explorations, fill 0xA5 / 0x5A)
 *  mode c03: every accepted Discover (reference arbiter) is answered by exactly one correct Hello
 *  mode c09: bisimulation of (state . Reset, fresh) pairs under all continuations (E3)            */
#include "../mc/oracles.h"
#include "../mc/e3.h"

#include <stdlib.h>
#include <string.h>

static pev EV[1024]; static int NEV;
static pev CV[1024]; static int NCV;          /* continuation alphabet (c09) */
static struct { arb arb; } M;
static int IFX;                                /* interface the closure runs on (1: the SECOND interface of the responder; interface 0 saw a frame first) */
static int mode;                               /* 2, 3, 9, 19 (allocation-ledger monitors on the protocol closure) */
static struct { uint8_t first_seen; } M19;
static uint32_t base_blocks; static uint64_t base_bytes;      /* the per-interface record of a fresh responder, measured */

static int SIB_EV = -1, SIB_CV = -1;           /* c09 --b 1: index of the one event that arrives on the responder's second interface */
static int IF0_EV = -1;      /* (second-interface closures) the first interface's own mapper sends another Discover THERE: it is still that interface's mapper */
static void ev_name(int ev, char *buf, size_t cap) { if (ev == IF0_EV) { snprintf(buf, cap, "on the first interface: "); buf += strlen(buf); cap -= 24; } if (ev == SIB_EV) { snprintf(buf, cap, "on the second interface: "); buf += strlen(buf); cap -= 25; } pev_name(&EV[ev], buf, cap); }
static void cv_name(int ev, char *buf, size_t cap) { if (ev == SIB_CV) { snprintf(buf, cap, "on the second interface: "); buf += strlen(buf); cap -= 25; } pev_name(&CV[ev], buf, cap); }
static void touch_if0(void) { if (IFX) { pev d = ev_discover(0, ST_M3, ST_M3, 0x7777, 3); vf_trace_clear(); drv_linux(&d, 0); pev p = ev_probe(0x04, 0, ST_S1, ST_S1, ST_OWN, ST_OWN); drv_linux(&p, 0); vf_trace_clear(); } }
static void root_setup(void) { M.arb.v = ARB_NONE; touch_if0(); }

static void apply_pev(const pev *e);
static void apply(int ev) {
    if (ev == SIB_EV) { drv_linux(&EV[ev], 1); return; }
    if (ev == IF0_EV) {
        drv_linux(&EV[ev], 0);
        if (mode == 2) oracle_wellformed(0);
        if (mode == 3) oracle_hello(&EV[ev], 0, 1);
        return;
    }
    apply_pev(&EV[ev]);
}
static void apply_pev(const pev *e) {
    int expect = arb_step(&M.arb, e);
    drv_linux(e, IFX);
    if (mode == 2) { oracle_wellformed(IFX); oracle_solicited(e); }
    if (mode == 3) oracle_hello(e, IFX, expect);
}

/* ------------------------------------------------------------------ c03 value sweep
 * Every 16-bit value of the generation and of the sequence number of a Discover, in 10 states per service
 * (fresh; after an accepted Discover with generation 0x1234 / 0x0100 / 0x00ff / 0xffff; the same after a Hello of
 * a neighbour was heard), direct and bridged: the closure above uses a handful of values, a defect keyed to a
 * relation between two values (byte swap, equal bytes, low byte zero, wrap) needs the full range.
 * pseudo path: [tos*2+bridged, prior index, field (0 generation, 1 sequence number), value] */
static const uint16_t PRIOR_GEN[5] = {0, 0x1234, 0x0100, 0x00ff, 0xffff};
static int vs_stage[4], vs_n; static uint64_t vs_cases;
static void vs_case(int tb, int prior, int field, int v) {
    int tos = tb >> 1, br = tb & 1;
    vf_world_reset(); root_setup(); vf_trace_clear();
    if (prior % 5) { pev d = ev_discover((uint8_t)tos, ST_M1, br ? ST_BR : ST_M1, PRIOR_GEN[prior % 5], 1); apply_pev(&d); vf_trace_clear(); }
    if (prior >= 5) { pev h = ev_hello((uint8_t)tos, ST_PEER, 0x3412); apply_pev(&h); vf_trace_clear(); }
    pev e = ev_discover((uint8_t)tos, ST_M1, br ? ST_BR : ST_M1, field == 0 ? (uint16_t)v : 0x4321, field == 1 ? (uint16_t)v : 2);
    if (field == 2) { e.nsta = (uint16_t)(v >> 1); e.own_pos = (v & 1) && e.nsta ? (int8_t)-1 : (int8_t)-1; if ((v & 1) && e.nsta) e.own_pos = (int8_t)((e.nsta - 1) > 120 ? 120 : (e.nsta - 1)); }   /* station list of every length that fits the frame, our address absent / listed */
    if (A.verbose) { char nm[160]; pev_name(&e, nm, sizeof nm); printf("    prior generation 0x%04x%s, then %s\n", PRIOR_GEN[prior % 5], prior >= 5 ? ", neighbour's Hello heard" : "", nm); }
    apply_pev(&e);
    vs_cases++;
}
static void vs_name(int ev, char *b, size_t cap) { snprintf(b, cap, "arg(%d)", ev); }
static void vs_apply(int ev) { vs_stage[vs_n++] = ev; if (vs_n == 4) { vs_n = 0; vs_case(vs_stage[0], vs_stage[1], vs_stage[2], vs_stage[3]); } }
static void vs_root(void) { vs_n = 0; }
static e1_cfg vscfg = { .nev = 1 << 16, .ev_name = vs_name, .apply = vs_apply, .root_setup = vs_root };
static void value_sweep03(void) {
    static int p[4];
    for (int tb = 0; tb < 4; tb++) for (int prior = 0; prior < 10; prior += 5) {      /* station-count sweep: 0..(MTU-36)/6 stations, our address absent / listed */
        int maxsta = (int)((W.iface[0].mtu - 36) / 6); if (maxsta > 1500) maxsta = 1500;
        for (int v = 0; v <= 2 * maxsta + 1; v++) { p[0] = tb; p[1] = prior; p[2] = 2; p[3] = v; e1_manual_path(&vscfg, p, 4); vs_case(tb, prior, 2, v); }
    }
    for (int tb = 0; tb < 4; tb++) for (int prior = 0; prior < 10; prior++) for (int field = 0; field < 2; field++) {
        if (prior == 0 && field == 1 && !vf_thorough() && tb) continue;
        /* one snapshot per state, restored for every value */
        for (int v = 0; v < 65536; v++) {
            if (!vf_thorough() && field == 1 && (v & 0xFF) > 2 && (v >> 8) > 2 && v < 0xFF00 && (v & 0xFF) < 0xFE) continue;     /* quick: sequence numbers with a boundary byte */
            p[0] = tb; p[1] = prior; p[2] = field; p[3] = v; e1_manual_path(&vscfg, p, 4);
            vs_case(tb, prior, field, v);
            if ((v & 0x3FF) == 0) vf_outcome(vf_trace_hash());
        }
    }
}

/* ------------------------------------------------------------------ c02 noise sweep
 * In 4 states (fresh; mapper M1 on the topology service; on the quick service; the former with an observation and
 * a cached icon) every frame (service {0,1,2,3,0xFF} x opcode 0..255 x sequence number {0,1,0x0100,0xFFFF} x sender
 * {the mapper, a stranger} x real destination {own, broadcast} x two bodies) is delivered once; well-formedness and
 * solicitation oracles as in the closure.  The closure's alphabet has 107 events; a defect in the dispatch of a
 * (service, opcode, sequence number) combination outside it needs the product.
 * pseudo path: [state, tos index, opcode, seq index * 8 + sender * 4 + destination * 2 + body] */
static const uint8_t NS_TOS[5] = {0, 1, 2, 3, 0xFF}; static const uint16_t NS_SEQ[4] = {0, 1, 0x0100, 0xFFFF};
static int ns_stage[4], ns_n; static uint64_t ns_cases;
static void ns_prepare(int state) {
    vf_world_reset(); root_setup(); vf_trace_clear();
    if (state == 1 || state == 3) { pev d = ev_discover(0, ST_M1, ST_M1, 0x1234, 1); apply_pev(&d); }
    if (state == 2) { pev d = ev_discover(1, ST_M1, ST_M1, 0x1234, 1); apply_pev(&d); }
    if (state == 3) { vf_trace_clear(); pev p = ev_probe(0x04, 0, ST_S0, ST_S0, ST_OWN, ST_OWN); apply_pev(&p); vf_trace_clear(); pev q = ev_qlt(0, ST_M1, ST_M1, 5, 0x0E, 0); apply_pev(&q); }
    vf_trace_clear();
}
static void ns_frame(int ti, int op, int code) {
    int si = code >> 3, who = (code >> 2) & 1, dst = (code >> 1) & 1, body = code & 1;
    pev e = ev_raw(NS_TOS[ti], (uint8_t)op, who ? ST_M3 : ST_M1, who ? ST_M3 : ST_M1);
    e.seq = NS_SEQ[si]; if (dst) { e.realdst = ST_BC; e.ethdst = ST_BC; }
    static uint8_t b[256]; size_t len = pev_build(&e, 0, b);
    if (body && op != 0x00 && op != 0x02 && op != 0x06 && op != 0x0B) { b[32] = 0x0E; b[33] = 0; b[34] = 0; b[35] = 0; }     /* what a misrouted frame would be read as: icon request, offset 0 */
    vf_iface *fi = &W.iface[0]; memset(fi->recv, 0, fi->recv_prev_len);
    vf_trace_clear(); arb_step(&M.arb, &e);
    drv_linux_deliver(0, b, len);
    oracle_wellformed(0); oracle_solicited(&e);
    ns_cases++;
    if (A.verbose) { char nm[160]; pev_name(&e, nm, sizeof nm); printf("    %s%s -> %d frame(s)\n", nm, body ? " [body 0e 00 00 00]" : "", tr_sends()); }
}
static void ns_name(int ev, char *b, size_t cap) { snprintf(b, cap, "arg(%d)", ev); }
static void ns_apply(int ev) { ns_stage[ns_n++] = ev; if (ns_n == 4) { ns_n = 0; ns_prepare(ns_stage[0]); ns_frame(ns_stage[1], ns_stage[2], ns_stage[3]); } }
static void ns_root(void) { ns_n = 0; }
static e1_cfg nscfg = { .nev = 1 << 16, .ev_name = ns_name, .apply = ns_apply, .root_setup = ns_root };
static void noise_sweep02(void) {
    static int p[4];
    for (int state = 0; state < 4; state++) {
        ns_prepare(state);
        vf_snap *s = vf_snapshot(&M, sizeof M);
        for (int ti = 0; ti < 5; ti++) for (int op = 0; op < 256; op++) for (int code = 0; code < 32; code++) {
            vf_restore(s, &M, sizeof M);
            p[0] = state; p[1] = ti; p[2] = op; p[3] = code; e1_manual_path(&nscfg, p, 4);
            ns_frame(ti, op, code);
            if ((code & 7) == 0) vf_outcome(vf_trace_hash());
        }
        free(s);
    }
}

/* ------------------------------------------------------------------ c03 getter-failure sweep
 * The Hello's header fields must be right whatever the platform getters answer: every single failing per-interface /
 * per-host getter (except the hardware-address getter: without it the responder cannot know its own address), and all of
 * them together, on a wired and on a wireless interface x both services x direct / bridged x first / repeated Discover.
 * pseudo path: [getter bit (16 = all), wifi*4 + tos*2 + bridged] */
static int gf_stage[2], gf_n; static uint64_t gf_cases;
static void gf_case(int bit, int cfg) {
    int wifi = (cfg >> 2) & 1, tos = (cfg >> 1) & 1, br = cfg & 1;
    uint32_t mask = bit >= 16 ? 0xFFFFFFFFu : (1u << bit); mask &= ~(uint32_t)VF_G_MAC;
    vf_iface *fi = &W.iface[0]; int w0 = fi->wifi; uint32_t f0 = fi->fail, h0 = W.host.fail;
    fi->wifi = wifi; fi->fail = mask; W.host.fail = mask;
    vf_world_reset(); root_setup(); vf_trace_clear();
    for (int rep = 0; rep < 2; rep++) {
        pev d = ev_discover((uint8_t)tos, ST_M1, br ? ST_BR : ST_M1, (uint16_t)(0x1234 + rep), (uint16_t)(1 + rep));
        if (A.verbose) { char nm[160]; pev_name(&d, nm, sizeof nm); printf("    getters failing: mask 0x%08x, %s interface: %s\n", mask, wifi ? "wireless" : "wired", nm); }
        vf_trace_clear(); apply_pev(&d); gf_cases++;
    }
    fi->wifi = w0; fi->fail = f0; W.host.fail = h0;
}
static void gf_name(int ev, char *b, size_t cap) { snprintf(b, cap, "arg(%d)", ev); }
static void gf_apply(int ev) { gf_stage[gf_n++] = ev; if (gf_n == 2) { gf_n = 0; gf_case(gf_stage[0], gf_stage[1]); } }
static void gf_root(void) { gf_n = 0; }
static e1_cfg gfcfg = { .nev = 1 << 16, .ev_name = gf_name, .apply = gf_apply, .root_setup = gf_root };
static void getter_sweep03(void) {
    static int p[2];
    for (int bit = 0; bit <= 16; bit++) for (int cfg = 0; cfg < 8; cfg++) { p[0] = bit; p[1] = cfg; e1_manual_path(&gfcfg, p, 2); gf_case(bit, cfg); vf_outcome(vf_trace_hash() ^ (uint64_t)bit); }
}

/* ------------------------------------------------------------------ c19 on the protocol closure */
static uint32_t serial0, newblocks; static uint64_t newbytes;
static void count_new(void *p, size_t size, uint32_t serial, void *arg) { (void)p; (void)arg; if (serial >= serial0) { newblocks++; newbytes += size; } }
static void retention19(const pev *e, const char *env);
static void apply19(int ev) {
    const pev *e = &EV[ev];
    /* environment answers: every request that transmits is also run with its j-th transmit refused (j = 0, 1, 2);
     * only the retention monitors look at those runs, they add no successor states */
    if (e->opcode == 0x00 || e->opcode == 0x02 || e->opcode == 0x06 || e->opcode == 0x0B) {
        vf_snap *entry = vf_snapshot(&M19, sizeof M19);
        for (unsigned j = 0; j < 3; j++) {
            vf_restore(entry, &M19, sizeof M19);
            W.fp.active = 1; W.fp.one_kind = VF_F_SEND; W.fp.one_n = j;
            serial0 = vf_alloc_serial(); vf_trace_clear();
            drv_linux(e, 0);
            uint32_t eff = W.fp.took_effect;
            memset(&W.fp, 0, sizeof W.fp); W.fp.sticky_kind = -1; W.fp.one_kind = -1;
            if (!eff) break;
            char env[48]; snprintf(env, sizeof env, "transmit #%u refused", j);
            retention19(e, env);
        }
        vf_restore(entry, &M19, sizeof M19); free(entry);
        vf_trace_clear();
    }
    serial0 = vf_alloc_serial();
    drv_linux(e, 0);
    if (e->opcode == 0xF0 && e->tos == 0xEE) return;
    retention19(e, NULL);
    M19.first_seen = 1;
}
/* retained beyond one node / one icon: still bounded retained state if a topology Reset gives it back (tried on a copy) */
static int reclaimed_by_reset19(void) {
    vf_snap *sn = vf_snapshot(&M19, sizeof M19);
    uint32_t nt = W.ntrace, tu = W.trace_used, to = W.trace_overflow, st = W.sends_total;
    pev r = ev_reset(0, ST_M1); drv_linux(&r, 0);
    int ok = vf_live_blocks() <= base_blocks && vf_live_bytes() <= base_bytes;
    vf_restore(sn, &M19, sizeof M19); free(sn);
    W.ntrace = nt; W.trace_used = tu; W.trace_overflow = to; W.sends_total = st;
    return ok;
}
static void retention19(const pev *e, const char *env) {
    newblocks = 0; newbytes = 0; vf_each_live(count_new, NULL);
    /* what a handler may keep: the interface record (first frame), one observation node (Probe/Train), the icon (QueryLargeTlv) */
    uint32_t allow = (M19.first_seen ? 0u : base_blocks) + ((e->opcode == 0x03 || e->opcode == 0x04) ? 1u : 0u) + ((e->opcode == 0x0B) ? 1u : 0u);
    char nm[200]; pev_name(e, nm, 150); if (env) { strcat(nm, " with "); strcat(nm, env); }
    if (newblocks > allow && !reclaimed_by_reset19()) {
        char sig[96]; snprintf(sig, sizeof sig, "handler-retains-buffer:op=0x%02x%s", e->opcode, env ? ":transmit-refused" : "");
        vf_violation(sig, "%s: %u block(s) (%llu bytes) obtained while handling the frame are still allocated afterwards; at most %u can belong to the bounded retained state", nm, newblocks, (unsigned long long)newbytes, allow);
    }
    if (e->opcode == 0x08 && e->tos == 0 && (vf_live_blocks() > base_blocks || vf_live_bytes() > base_bytes))
        vf_violation("reset-leaves-allocations", "%s: %u blocks (%llu bytes) remain allocated after a topology Reset; a fresh responder's per-interface record is %u block(s), %llu bytes", nm, vf_live_blocks(), (unsigned long long)vf_live_bytes(), base_blocks, (unsigned long long)base_bytes);
    if (vf_live_bytes() > 262144 + W.host.icon_size)
        vf_violation("retained-memory-exceeds-bound", "%llu bytes retained between frames (bound used: 256 KiB + icon)", (unsigned long long)vf_live_bytes());
}
static void root19(void) { M19.first_seen = 0; }

/* ------------------------------------------------------------------ c09 */
static const pev RESET0 = { .opcode = 8, .tos = 0, .realsrc = ST_M1, .ethsrc = ST_M1, .realdst = ST_BC, .ethdst = ST_BC, .own_pos = -1 };
static vf_snap *fresh_snap[6];   /* a freshly started responder, per state of the platform environment */
static uint64_t seeds_tried;

static void on_new_state(int depth) {
    (void)depth;
    vf_path p; e1_current_path(&p);
    vf_trace_clear();
    drv_linux(&RESET0, 0);
    vf_snap *snaps[E3_MAXW] = { vf_snapshot(NULL, 0), fresh_snap[W.env.icon_epoch % 3 + 3 * (W.env.mtu_alt & 1)], NULL };
    seeds_tried++;
    e3_add_seed(snaps, p.ev, p.n);
    free(snaps[0]);
}
static int touches(int ev, int world) { (void)ev; (void)world; return 1; }
static void apply3(int ev, int world) { (void)world; drv_linux(&CV[ev], ev == SIB_CV ? 1 : 0); }
static const char *sig_of(int ev) {
    static char b[32]; snprintf(b, sizeof b, "op=0x%02x,tos=%u", CV[ev].opcode, CV[ev].tos); return b;
}
#define FLOOD_BASE 100000      /* prefix code FLOOD_BASE + n: n Probe/Train observations with pairwise distinct sources; the oldest is the alphabet's Probe from S0 */
static void flood09(int n) {
    pev first = ev_probe(0x04, 0, ST_S0, ST_S0, ST_OWN, ST_OWN);
    for (int k = 0; k < n; k++) {
        vf_trace_clear();
        if (k == 0) { drv_linux(&first, 0); continue; }
        uint8_t f[64], src[6] = {0x00, 0x50, 0x56, 0x10, (uint8_t)(k >> 8), (uint8_t)k};
        fb_base(f, W.iface[0].mac, src, 0, (k & 1) ? 0x04 : 0x03, W.iface[0].mac, src, 0);
        vf_iface *fi = &W.iface[0]; memset(fi->recv, 0, fi->recv_prev_len);
        drv_linux_deliver(0, f, 32);
    }
    vf_trace_clear();
}
static void pre_name09(int ev, char *buf, size_t cap) { if (ev >= FLOOD_BASE) snprintf(buf, cap, "%d observations with pairwise distinct sources (oldest: Probe from S0)", ev - FLOOD_BASE); else ev_name(ev, buf, cap); }
static void seed_from_prefix(const int *prefix, int n, vf_snap **snaps) {
    vf_world_reset(); root_setup();
    for (int i = 0; i < n; i++) { vf_trace_clear(); if (prefix[i] >= FLOOD_BASE) { flood09(prefix[i] - FLOOD_BASE); continue; } drv_linux(&EV[prefix[i]], prefix[i] == SIB_EV ? 1 : 0); }
    vf_trace_clear(); drv_linux(&RESET0, 0);
    snaps[0] = vf_snapshot(NULL, 0);
    uint32_t epoch = W.env.icon_epoch, alt = W.env.mtu_alt;
    vf_world_reset();
    W.env.icon_epoch = epoch; W.env.mtu_alt = alt;          /* the fresh responder starts on the same platform */
    snaps[1] = vf_snapshot(NULL, 0);
}
static e3_cfg c3 = { .nworlds = 2, .ev_name = cv_name, .pre_name = pre_name09, .touches = touches, .apply = apply3,
                     .sig_prefix = "post-reset-divergence", .sig_of = sig_of, .same_iface = 1, .seed_from_prefix = seed_from_prefix };

int main(int argc, char **argv) {
    const char *prop = "C02";
    for (int i = 1; i + 1 < argc; i++) if (!strcmp(argv[i], "--mode")) { if (!strcmp(argv[i + 1], "c03")) prop = "C03"; if (!strcmp(argv[i + 1], "c09")) prop = "C09"; if (!strcmp(argv[i + 1], "c19p")) prop = "C19"; }
    vf_parse_args(argc, argv, prop);
    mode = !strcmp(A.mode, "c03") ? 3 : !strcmp(A.mode, "c09") ? 9 : !strcmp(A.mode, "c19p") ? 19 : 2;
    vf_world_init(A.mtu, A.wifi, (uint8_t)A.fill);
    IFX = (mode == 2 || mode == 3) && A.b == 1;
    if (IFX) W.iface[0].mtu = A.mtu >= 1500 ? 576 : 9216;       /* the interface that saw traffic first has another MTU: frame sizes on this one must follow its own */
    if (IFX) { W.iface[1].flags = 0x0800; W.iface[1].iftype = 71; W.iface[1].speed = 540000; W.iface[1].wifi = !A.wifi; memcpy(W.iface[1].ssid, "second", 6); W.iface[1].ssid_len = 6; }
    if ((mode == 2 || mode == 3) && A.a == 2) vf_rich_platform();      /* machine name longer than the Hello property may carry, 32-byte SSID, 64-byte hardware ID */
    int small = (mode == 9 && A.a == 1);
    NEV = sigma_build(EV, 1024, mode == 3 ? SIGMA_DISC : small ? SIGMA_SMALL : SIGMA_P);
    NCV = sigma_build(CV, 1024, small ? SIGMA_SMALL : SIGMA_P);
    if (mode == 9 && A.b != 1) { EV[NEV++] = ev_raw(0xEF, 0xF0, ST_ZERO, ST_ZERO); CV[NCV++] = ev_raw(0xEF, 0xF0, ST_ZERO, ST_ZERO); }      /* the interface's MTU may be changed at run time */
    if (mode == 9 && A.b == 1) {      /* the two-interface product keeps the alphabet without the unsequenced Emit / Query (they are in the one-interface runs): with them it no longer closes within the memory budget on trees that add per-interface state */
        int n = 0; for (int i = 0; i < NEV; i++) if (!(EV[i].seq == 0 && (EV[i].opcode == 0x02 || EV[i].opcode == 0x06))) EV[n++] = EV[i]; NEV = n;
        n = 0; for (int i = 0; i < NCV; i++) if (!(CV[i].seq == 0 && (CV[i].opcode == 0x02 || CV[i].opcode == 0x06))) CV[n++] = CV[i]; NCV = n;
    }
    if (mode == 9 && A.b == 1) {      /* a responder with two interfaces: a frame that changes nothing (a neighbour's Hello) may arrive on the other one at any point */
        SIB_EV = NEV; EV[NEV++] = ev_hello(0, ST_PEER, 0x3412); SIB_CV = NCV; CV[NCV++] = ev_hello(0, ST_PEER, 0x3412);
    }
    if (IFX) { IF0_EV = NEV; EV[NEV++] = ev_discover(0, ST_M3, ST_M3, 0x7778, 4); }
    c3.nev = NCV;
    e1_cfg cfg = { .nev = NEV, .ev_name = ev_name, .apply = apply, .root_setup = root_setup, .model = &M, .model_size = sizeof M,
                   .deadline_s = A.deadline };
    if (mode == 19) { vf_world_reset(); vf_trace_clear(); drv_linux(&RESET0, 0); base_blocks = vf_live_blocks(); base_bytes = vf_live_bytes(); vf_world_reset(); }
    if (mode == 19) { cfg.apply = apply19; cfg.root_setup = root19; cfg.model = &M19; cfg.model_size = sizeof M19; cfg.prune_on_violation = 1; }
    if (A.replay) {
        A.verbose = 1;
        if (mode == 9) return e3_replay_file(&c3, A.replay);
        if (mode == 3 && A.a == 3) return e1_replay_file(&vscfg, A.replay);
        if ((mode == 3 || mode == 2) && A.a == 5) return e1_replay_file(&gfcfg, A.replay);
        if (mode == 2 && A.a == 4) return e1_replay_file(&nscfg, A.replay);
        return e1_replay_file(&cfg, A.replay);
    }
    double t0 = vf_now_s();
    e1_stats st;
    if ((mode == 3 || mode == 2) && A.a == 5) {
        memset(&st, 0, sizeof st);
        getter_sweep03();
        st.transitions = gf_cases; st.fixpoint = 1;
        vf_sample("getter-failure sweep: {each of 15 getters failing alone, all failing} x {wired, wireless} x both services x direct/bridged x first/repeated Discover: %s", mode == 3 ? "the Hello's header fields as demanded" : "the Hello well-formed (property list parses to the end marker in the last byte) and solicited");
    } else if (mode == 3 && A.a == 3) {
        memset(&st, 0, sizeof st);
        value_sweep03();
        st.transitions = vs_cases; st.fixpoint = 1;
        vf_sample("Discover value sweep: {topology, quick} x {direct, bridged} x 10 prior states x generation 0..65535%s; station lists of every length 0..(MTU-36)/6 with our address absent / listed", vf_thorough() ? " and sequence number 0..65535" : " and every sequence number with a byte in {0,1,2,0xFE,0xFF}");
    } else if (mode == 2 && A.a == 4) {
        memset(&st, 0, sizeof st);
        noise_sweep02();
        st.transitions = ns_cases; st.fixpoint = 1;
        vf_sample("noise sweep: 4 states x service {0,1,2,3,0xFF} x opcode 0..255 x seq {0,1,0x0100,0xFFFF} x {mapper, stranger} x {unicast, broadcast} x 2 bodies: every transmission well-formed and solicited by its request");
    } else if (mode == 2) {
        cfg.record_outhash = 1;
        e1_run(&cfg, &st);
        uint64_t n1 = e1_outhash_n; uint64_t *h1 = malloc(8 * (n1 ? n1 : 1)); memcpy(h1, e1_outhash, 8 * n1);
        uint64_t states1 = st.states;
        e1_stats st2;
        W.fill = (uint8_t)~A.fill;      /* 0xA5 -> 0x5A */
        cfg.record_outhash = 0; cfg.compare_outhash = h1; cfg.compare_n = n1; cfg.compare_partial = !st.fixpoint;
        e1_run(&cfg, &st2);
        if (st.fixpoint && st2.fixpoint && (st2.states != states1 || st2.transitions != st.transitions))
            vf_violation("output-depends-on-uninitialised-memory:graph", "state graph differs between fill patterns: %llu/%llu states, %llu/%llu transitions", (unsigned long long)states1, (unsigned long long)st2.states, (unsigned long long)st.transitions, (unsigned long long)st2.transitions);
        vf_extra("fill_patterns", "0x%02x and 0x%02x: %llu transitions compared byte-for-byte (via 64-bit hashes of each transition's port-call log)", A.fill, (uint8_t)~A.fill, (unsigned long long)n1);
        st.transitions += st2.transitions;
    } else if (mode == 3 || mode == 19) {
        e1_run(&cfg, &st);
    } else {
        for (int ep = 0; ep < 6; ep++) { vf_world_reset(); W.env.icon_epoch = (uint32_t)(ep % 3); W.env.mtu_alt = (uint32_t)(ep / 3); fresh_snap[ep] = vf_snapshot(NULL, 0); }
        e3_begin(&c3);
        cfg.on_new_state = on_new_state; cfg.model_size = 0; cfg.model = NULL;
        e1_run(&cfg, &st);
        /* directed seeds beyond the closure's reach: a mapper, then a see-list filled to / beyond its capacity (1024), then the Reset */
        if (A.b != 1) for (int fi = 0; fi < 4; fi++) {
            static const int FL[4] = {1023, 1024, 1025, 1100};
            int disc = -1; for (int i = 0; i < NEV; i++) if (EV[i].opcode == 0 && EV[i].tos == 0 && EV[i].realsrc == ST_M1 && EV[i].ethsrc == ST_M1) { disc = i; break; }
            int pre[2] = { disc, FLOOD_BASE + FL[fi] }; vf_snap *sn[E3_MAXW] = { NULL, NULL, NULL };
            seed_from_prefix(pre, 2, sn); seeds_tried++;
            e3_add_seed(sn, pre, 2); free(sn[0]); free(sn[1]);
        }
        /* ... and a see-list larger than one QueryResp, ONE Query (answered with 'more'), then the Reset before the remainder was fetched */
        if (A.b != 1) {
            int disc = -1, qry = -1;
            for (int i = 0; i < NEV; i++) { if (disc < 0 && EV[i].opcode == 0 && EV[i].tos == 0 && EV[i].realsrc == ST_M1 && EV[i].ethsrc == ST_M1) disc = i; if (qry < 0 && EV[i].opcode == 6 && EV[i].tos == 0 && EV[i].realsrc == ST_M1 && EV[i].ethsrc == ST_M1) qry = i; }
            int cap = (int)((W.iface[0].mtu - 34) / 20);
            for (int k = 0; k < 3 && disc >= 0 && qry >= 0; k++) {
                int pre[3] = { disc, FLOOD_BASE + cap + (k == 0 ? 1 : k == 1 ? 2 : cap + 1), qry }; vf_snap *sn[E3_MAXW] = { NULL, NULL, NULL };
                seed_from_prefix(pre, 3, sn); seeds_tried++;
                e3_add_seed(sn, pre, 3); free(sn[0]); free(sn[1]);
            }
        }
        vf_extra("phase1", "closure from fresh: %llu states, %llu transitions, fixpoint=%d; Reset applied in every one of them; %u distinct (state.Reset, fresh) seed pairs", (unsigned long long)st.states, (unsigned long long)st.transitions, st.fixpoint, e3_nseeds());
        e3_stats s3; c3.deadline_s = cfg.deadline_s;
        e3_run(&s3);
        vf_extra("phase2", "pair closure: %llu pairs, %llu pair transitions (%llu executions), fixpoint=%d", (unsigned long long)s3.states, (unsigned long long)s3.transitions, (unsigned long long)s3.executions, s3.fixpoint);
        st.states += s3.states; st.transitions += s3.executions; st.fixpoint = st.fixpoint && s3.fixpoint;
        if (s3.max_depth > st.max_depth) st.max_depth = s3.max_depth;
        if (s3.cap) st.cap = s3.cap;
    }
    R.states = st.states; R.transitions = st.transitions; R.evaluations = st.transitions; R.max_depth = st.max_depth;
    R.fixpoint = st.fixpoint; R.exhaustive = st.fixpoint; R.cap_hit = st.cap;
    vf_extra("alphabet", "%d events (continuations: %d)", NEV, NCV);
    R.wall_s = vf_now_s() - t0;
    vf_write_results();
    return 0;
}
