/* C04 (core part) - Hello properties faithfully encode the interface's attributes.
 * Exhaustive input sweeps through the real Hello path (one Discover on a fresh world per attribute
 * tuple), decoded by the independent decoder and compared with the tuple.
 * mode grid : all sweeps of the quick tier (2^16 flags, 2^16 rates, 256 RSSI, 256 modes, name/SSID lengths
 *             0..40 x 3 patterns x 2 return conventions, 4096 getter-failure subsets x 2 bases, per-byte
 *             sweeps of MAC/BSSID/IPv6, byte-boundary grid + walking bits for ifType/IPv4/speed)
 * mode full : every 32-bit value of ifType / IPv4 / link speed in [a<<24, b<<24) through the TLV writers */
#include "../mc/sigma.h"
#include "lltdTlvOps.h"

#include <stdlib.h>
#include <string.h>

static uint64_t evals;
static e1_cfg pseudo;
static const char *cur_sweep = "base";
static uint8_t perf_ref[8], qos_ref[4]; static int have_ref;

static uint32_t be32(const uint8_t *p) { return ((uint32_t)p[0] << 24) | ((uint32_t)p[1] << 16) | ((uint32_t)p[2] << 8) | p[3]; }

#define BAD(cls, ...) do { char _s[120]; snprintf(_s, sizeof _s, "hello-attr:%s:%s", cls, cur_sweep); vf_violation(_s, __VA_ARGS__); } while (0)

static void expect_tlv(const wd_frame *f, uint8_t type, const uint8_t *val, size_t len, const char *what, int may_be_absent_or_zero) {
    const wd_tlv *t = wd_find_tlv(f, type);
    if (!t) { if (!may_be_absent_or_zero) BAD(what, "%s property (type 0x%02x) missing from the Hello", what, type); return; }
    if (may_be_absent_or_zero) {
        /* failing getter: only "absent or the documented zero default" is demanded */
        for (unsigned i = 0; i < t->len; i++) if (f->b[t->off + i] != 0) { BAD(what, "%s getter failed, but the property carries non-zero bytes", what); return; }
        return;
    }
    if (t->len != len || memcmp(f->b + t->off, val, len) != 0) {
        char got[80] = "", exp[80] = ""; size_t o = 0;
        for (unsigned i = 0; i < t->len && i < 16; i++) o += (size_t)snprintf(got + o, sizeof got - o, "%02x", f->b[t->off + i]);
        o = 0; for (unsigned i = 0; i < len && i < 16; i++) o += (size_t)snprintf(exp + o, sizeof exp - o, "%02x", val[i]);
        BAD(what, "%s property: %u bytes %s..., the interface attribute encodes as %zu bytes %s...", what, t->len, got, len, exp);
    }
}

/* one Hello for the current attribute records; compares every property */
static int IFX;        /* interface under test (1: the responder's second interface; interface 0 has other attributes and saw a frame first) */
static void one(void) {
    vf_iface *fi = &W.iface[IFX];
    /* every second tuple is answered by the SAME responder image that has just answered the previous tuple: the platform's
     * attributes changed in between (a host is renamed, an address is assigned), the Hello must encode what is supplied now */
    if (!(evals & 1)) vf_world_reset();
    pev d = ev_discover(0, ST_M1, ST_M1, 0x0102, 1);
    if (IFX) { vf_trace_clear(); drv_linux(&d, 0); }
    vf_trace_clear();
    drv_linux(&d, IFX);
    evals++;
    const vf_trec *t = NULL; int sends = 0;
    for (uint32_t i = 0; i < W.ntrace; i++) if (W.trace[i].kind == VF_T_SEND) { t = &W.trace[i]; sends++; }
    if (sends != 1) { BAD("no-hello", "%d frames in answer to the Discover", sends); return; }
    if (t->iface != IFX) { BAD("wrong-interface", "Hello for a Discover on interface %d handed to interface %u", IFX, t->iface); return; }
    wd_frame f; wd_decode(vf_trace_bytes + t->off, t->len, &f);
    if (f.opcode != 0x01 || !f.tlv_end_ok) { BAD("unparsable", "Hello property list does not parse to its end marker"); return; }
    { /* structure (C02's clauses) for every attribute tuple: host id first, legal lengths, no type twice, end marker last */
      const char *why = wd_wellformed(&f, f.realsrc, W.iface[IFX].mtu > 1500 ? W.iface[IFX].mtu : 1500);
      if (why) { char cls[80]; snprintf(cls, sizeof cls, "structure:%s", why); BAD(cls, "Hello for this attribute tuple is not well-formed: %s", why); } }
    uint32_t fail = fi->fail | W.host.fail;
    uint8_t v[64];
    expect_tlv(&f, 0x01, fi->mac, 6, "host-id", (fail & VF_G_MAC) != 0);
    uint32_t fl = (fail & VF_G_FLAGS) ? 0 : fi->flags;
    v[0] = (uint8_t)(fl >> 8); v[1] = (uint8_t)fl; v[2] = 0; v[3] = 0; expect_tlv(&f, 0x02, v, 4, "characteristics", 0);
    v[0] = (uint8_t)(fi->iftype >> 24); v[1] = (uint8_t)(fi->iftype >> 16); v[2] = (uint8_t)(fi->iftype >> 8); v[3] = (uint8_t)fi->iftype;
    expect_tlv(&f, 0x03, v, 4, "interface-type", (fail & VF_G_IFTYPE) != 0);
    memcpy(v, &fi->ipv4_be, 4); expect_tlv(&f, 0x07, v, 4, "ipv4", (fail & VF_G_IPV4) != 0);
    expect_tlv(&f, 0x08, fi->ipv6, 16, "ipv6", (fail & VF_G_IPV6) != 0);
    v[0] = (uint8_t)(fi->speed >> 24); v[1] = (uint8_t)(fi->speed >> 16); v[2] = (uint8_t)(fi->speed >> 8); v[3] = (uint8_t)fi->speed;
    expect_tlv(&f, 0x0C, v, 4, "link-speed", (fail & VF_G_SPEED) != 0);
    size_t nl = W.host.hostname_len > 32 ? 32 : W.host.hostname_len;
    expect_tlv(&f, 0x0F, W.host.hostname, nl, "machine-name", (fail & VF_G_HOSTNAME) != 0);
    const wd_tlv *mn = wd_find_tlv(&f, 0x0F); if (mn && mn->len > 32) BAD("machine-name", "machine name of %u bytes", mn->len);
    int wifi = fi->wifi && !(fail & VF_G_WIFIMODE);
    static const uint8_t wtypes[5] = {0x04, 0x05, 0x06, 0x09, 0x0D};
    if (fi->wifi && (fail & VF_G_WIFIMODE)) {
        /* the mode getter itself fails: nothing is demanded about the wireless properties */
    } else if (!wifi) {
        for (int i = 0; i < 5; i++) if (wd_find_tlv(&f, wtypes[i])) BAD("wireless-on-wired", "wireless property 0x%02x present in the Hello of a wired interface", wtypes[i]);
    } else {
        v[0] = fi->wifi_mode; expect_tlv(&f, 0x04, v, 1, "wifi-mode", 0);
        expect_tlv(&f, 0x05, fi->bssid, 6, "bssid", (fail & VF_G_BSSID) != 0);
        size_t sl = fi->ssid_len > 32 ? 32 : fi->ssid_len;
        expect_tlv(&f, 0x06, fi->ssid, sl, "ssid", (fail & VF_G_SSID) != 0);
        const wd_tlv *ss = wd_find_tlv(&f, 0x06); if (ss && ss->len > 32) BAD("ssid", "SSID of %u bytes", ss->len);
        v[0] = (uint8_t)(fi->rate >> 8); v[1] = (uint8_t)fi->rate; expect_tlv(&f, 0x09, v, 2, "wifi-max-rate", (fail & VF_G_RATE) != 0);
        int32_t r = fi->rssi; uint32_t ru = (uint32_t)r; v[0] = (uint8_t)(ru >> 24); v[1] = (uint8_t)(ru >> 16); v[2] = (uint8_t)(ru >> 8); v[3] = (uint8_t)ru;
        expect_tlv(&f, 0x0D, v, 4, "wifi-rssi", (fail & VF_G_RSSI) != 0);
    }
    /* fixed properties: present, well-sized, identical in every Hello */
    const wd_tlv *pc = wd_find_tlv(&f, 0x0A), *qo = wd_find_tlv(&f, 0x14);
    if (!pc || pc->len != 8) BAD("perf-counter", "performance-counter frequency property missing or not 8 bytes");
    if (!qo || qo->len != 4) BAD("qos", "QoS characteristics property missing or not 4 bytes");
    if (pc && qo && pc->len == 8 && qo->len == 4) {
        if (!have_ref) {
            memcpy(perf_ref, f.b + pc->off, 8); memcpy(qos_ref, f.b + qo->off, 4); have_ref = 1;
            uint64_t hz = 0; for (int i = 0; i < 8; i++) hz = (hz << 8) | perf_ref[i];
            if (hz == 0 || hz > 1000000000000ull || (hz << 32) == 0) BAD("perf-counter", "performance-counter frequency %llu is not a plausible big-endian 64-bit value", (unsigned long long)hz);
            if (be32(qos_ref) & 0x1FFFFFFFu) BAD("qos", "QoS characteristics 0x%08x has bits outside the three defined flags (byte order?)", be32(qos_ref));
        } else if (memcmp(perf_ref, f.b + pc->off, 8) || memcmp(qos_ref, f.b + qo->off, 4)) BAD("fixed-properties-vary", "performance counter / QoS properties differ between Hellos");
    }
    if ((evals & 0xff) == 0 || evals < 64) vf_outcome(vf_hash64(vf_trace_bytes + t->off + 46, t->len - 46, 3));
}

/* ------------------------------------------------------------ sweeps */
static vf_iface base_if; static vf_host base_host;
static vf_iface other_if;        /* attributes of the interface that is NOT under test when IFX == 1 */
static void set_attrs(vf_iface *dst, const vf_iface *src) { uint8_t *r = dst->recv; int id = dst->id; size_t pl = dst->recv_prev_len; *dst = *src; dst->recv = r; dst->id = id; dst->recv_prev_len = pl; }
static void restore_base(int wifi) {
    set_attrs(&W.iface[IFX], &base_if); W.host = base_host; W.iface[IFX].wifi = wifi;
    if (IFX) set_attrs(&W.iface[0], &other_if);
}

static void cex_here(int a, int b, int c) { static int p[4]; p[0] = a; p[1] = b; p[2] = c; p[3] = W.iface[IFX].wifi + 2 * IFX; e1_manual_path(&pseudo, p, 4); }

static void fill_pattern(uint8_t *dst, size_t n, int pat) {
    for (size_t i = 0; i < n; i++) dst[i] = pat == 0 ? (uint8_t)('a' + i % 26) : pat == 1 ? (uint8_t)(0x80 + i) : (uint8_t)(i == 0 ? 0 : 0xC3);
}

static void set_pair(vf_iface *fi, int fp, int val) {
    for (int i = 0; i < 6; i++) { fi->mac[i] = (uint8_t)(0x11 * (i + 1)); fi->bssid[i] = (uint8_t)(0x13 * (i + 1)); }
    for (int i = 0; i < 16; i++) fi->ipv6[i] = (uint8_t)(0x0d * (i + 1) + 1);
    uint8_t *p = fp / 2 == 0 ? fi->mac : fp / 2 == 1 ? fi->bssid : fi->ipv6; int n = fp / 2 == 2 ? 16 : 6, at = (fp & 1) ? n - 2 : 0;
    p[at] = (uint8_t)(val >> 8); p[at + 1] = (uint8_t)val;
}
static void sweep_grid(void) {
    vf_iface *fi = &W.iface[IFX];
    cur_sweep = "flags";
    for (int w = 0; w < 2; w++) { restore_base(w); for (uint32_t v = 0; v < 65536; v++) { fi->flags = v; cex_here(1, (int)v, 0); one(); } }
    restore_base(1);
    cur_sweep = "wifi-rate"; for (uint32_t v = 0; v < 65536; v++) { fi->rate = (uint16_t)v; cex_here(2, (int)v, 0); one(); }
    restore_base(1);
    cur_sweep = "wifi-rssi"; for (int v = -128; v < 128; v++) { fi->rssi = (int8_t)v; cex_here(3, v + 128, 0); one(); }
    restore_base(1);
    cur_sweep = "wifi-mode"; for (int v = 0; v < 256; v++) { fi->wifi_mode = (uint8_t)v; cex_here(4, v, 0); one(); }
    cur_sweep = "name-lengths";
    for (int w = 0; w < 2; w++) for (int len = 0; len <= 40; len++) for (int pat = 0; pat < 3; pat++) for (int conv = 0; conv < 2; conv++) {
        restore_base(w);
        fill_pattern(W.host.hostname, (size_t)len, pat); W.host.hostname_len = (size_t)len; W.host.hostname_ret_full = conv;
        fill_pattern(fi->ssid, (size_t)(40 - len), pat); fi->ssid_len = (size_t)(40 - len); fi->ssid_ret_full = conv;
        cex_here(5, len, pat * 2 + conv); one();
    }
    cur_sweep = "getter-failures";
    static const uint32_t bits[12] = {VF_G_MAC, VF_G_IFTYPE, VF_G_IPV4, VF_G_IPV6, VF_G_SPEED, VF_G_BSSID, VF_G_SSID, VF_G_RATE, VF_G_RSSI, VF_G_HOSTNAME, VF_G_WIFIMODE, VF_G_MTU};
    for (int w = 0; w < 2; w++) for (int sub = 0; sub < 4096; sub++) {
        restore_base(w);
        uint32_t m = 0; for (int b = 0; b < 12; b++) if (sub & (1 << b)) m |= bits[b];
        fi->fail = m & ~VF_G_HOSTNAME; W.host.fail = m & VF_G_HOSTNAME;
        cex_here(6, sub, 0); one();
    }
    cur_sweep = "per-byte";
    for (int w = 0; w < 2; w++) for (int bg = 0; bg < 2; bg++) for (int pos = 0; pos < 28; pos++) for (int val = 0; val < 256; val++) {
        restore_base(w);
        memset(fi->mac, bg ? 0xff : 0x00, 6); memset(fi->bssid, bg ? 0xff : 0x00, 6); memset(fi->ipv6, bg ? 0xff : 0x00, 16);
        if (pos < 6) fi->mac[pos] = (uint8_t)val; else if (pos < 12) fi->bssid[pos - 6] = (uint8_t)val; else fi->ipv6[pos - 12] = (uint8_t)val;
        cex_here(7, pos * 2 + bg, val); one();
    }
    cur_sweep = "byte-pairs";      /* every 16-bit value in the leading and in the trailing byte pair of each address, over a background without zero bytes (address classes - link-local, multicast, locally administered - are decided by leading bits) */
    for (int w = 0; w < 2; w++) for (int fp = 0; fp < 6; fp++) for (int val = 0; val < 65536; val++) {
        restore_base(w);
        set_pair(fi, fp, val);
        cex_here(11, fp, val); one();
    }
    cur_sweep = "u32-grid";
    static const uint8_t gb[5] = {0x00, 0x01, 0x7F, 0x80, 0xFF};
    for (int field = 0; field < 3; field++) {
        for (int i = 0; i < 625 + 64; i++) {
            restore_base(i & 1);
            uint32_t v;
            if (i < 625) v = ((uint32_t)gb[i % 5] << 24) | ((uint32_t)gb[(i / 5) % 5] << 16) | ((uint32_t)gb[(i / 25) % 5] << 8) | gb[(i / 125) % 5];
            else { int k = i - 625; v = k < 32 ? (1u << k) : ~(1u << (k - 32)); }
            if (field == 0) fi->iftype = v; else if (field == 1) fi->ipv4_be = v; else fi->speed = v;
            cex_here(8 + field, (int)(v >> 16), (int)(v & 0xFFFF)); one();
        }
    }
}

/* thorough: every 32-bit value through the three TLV writers */
static void sweep_full(uint32_t lo24, uint32_t hi24) {
    vf_iface *fi = &W.iface[IFX];
    uint8_t buf[64];
    cur_sweep = "u32-full";
    for (uint64_t v = (uint64_t)lo24 << 24; v < ((uint64_t)hi24 << 24); v++) {
        uint32_t x = (uint32_t)v;
        fi->iftype = x; fi->ipv4_be = x; fi->speed = x;
        size_t n1 = setPhysicalMediumTLV(buf, 0, vf_ctx(IFX)), n2 = setIPv4TLV(buf, 8, vf_ctx(IFX)), n3 = setLinkSpeedTLV(buf, 16, vf_ctx(IFX));
        evals += 3;
        uint32_t raw; memcpy(&raw, buf + 10, 4);
        if (n1 != 6 || buf[0] != 0x03 || buf[1] != 4 || be32(buf + 2) != x) { cex_here(8, (int)(x >> 16), (int)(x & 0xFFFF)); BAD("interface-type", "interface type 0x%08x encoded as %02x%02x%02x%02x", x, buf[2], buf[3], buf[4], buf[5]); }
        if (n2 != 6 || buf[8] != 0x07 || buf[9] != 4 || raw != x) { cex_here(9, (int)(x >> 16), (int)(x & 0xFFFF)); BAD("ipv4", "IPv4 address (network order 0x%08x) distorted", x); }
        if (n3 != 6 || buf[16] != 0x0C || buf[17] != 4 || be32(buf + 18) != x) { cex_here(10, (int)(x >> 16), (int)(x & 0xFFFF)); BAD("link-speed", "link speed 0x%08x encoded as %02x%02x%02x%02x", x, buf[18], buf[19], buf[20], buf[21]); }
        if ((x & 0xFFFFF) == 0) vf_outcome(vf_hash64(buf, 24, 9));
    }
}

static int staged[4], nst;
static void ps_name(int ev, char *b, size_t cap) { snprintf(b, cap, "arg(%d)", ev); }
static void ps_root(void) { nst = 0; }
static void ps_apply(int ev) {
    staged[nst++] = ev; if (nst < 4) return; nst = 0;
    vf_iface *fi = &W.iface[IFX];
    int k = staged[0], a = staged[1], b = staged[2]; IFX = staged[3] / 2; restore_base(staged[3] & 1);
    uint32_t v32 = ((uint32_t)a << 16) | (uint32_t)b;
    static const uint32_t bits[12] = {VF_G_MAC, VF_G_IFTYPE, VF_G_IPV4, VF_G_IPV6, VF_G_SPEED, VF_G_BSSID, VF_G_SSID, VF_G_RATE, VF_G_RSSI, VF_G_HOSTNAME, VF_G_WIFIMODE, VF_G_MTU};
    switch (k) {
        case 1: fi->flags = (uint32_t)a; break; case 2: fi->rate = (uint16_t)a; break; case 3: fi->rssi = (int8_t)(a - 128); break; case 4: fi->wifi_mode = (uint8_t)a; break;
        case 5: fill_pattern(W.host.hostname, (size_t)a, b / 2); W.host.hostname_len = (size_t)a; W.host.hostname_ret_full = b & 1;
                fill_pattern(fi->ssid, (size_t)(40 - a), b / 2); fi->ssid_len = (size_t)(40 - a); fi->ssid_ret_full = b & 1; break;
        case 6: { uint32_t m = 0; for (int i = 0; i < 12; i++) if (a & (1 << i)) m |= bits[i]; fi->fail = m & ~VF_G_HOSTNAME; W.host.fail = m & VF_G_HOSTNAME; break; }
        case 7: { int pos = a / 2, bg = a & 1; memset(fi->mac, bg ? 0xff : 0, 6); memset(fi->bssid, bg ? 0xff : 0, 6); memset(fi->ipv6, bg ? 0xff : 0, 16);
                  if (pos < 6) fi->mac[pos] = (uint8_t)b; else if (pos < 12) fi->bssid[pos - 6] = (uint8_t)b; else fi->ipv6[pos - 12] = (uint8_t)b; break; }
        case 11: set_pair(fi, a, b); break;
        case 8: fi->iftype = v32; break; case 9: fi->ipv4_be = v32; break; case 10: fi->speed = v32; break;
    }
    cur_sweep = "replay";
    one();
    printf("    attribute tuple kind=%d a=%d b=%d wifi=%d -> Hello:\n", k, a, b, staged[3]); vf_trace_print(stdout);
}

int main(int argc, char **argv) {
    vf_parse_args(argc, argv, "C04");
    vf_world_init(A.mtu, 0, (uint8_t)A.fill);
    base_if = W.iface[0]; base_host = W.host;
    other_if = W.iface[0]; other_if.flags = 0x0800; other_if.iftype = 71; other_if.speed = 123456; other_if.ipv4_be = 0x01020304; memset(other_if.mac, 0x6e, 6); other_if.mac[0] = 0x02; memset(other_if.ipv6, 0x5c, 16); other_if.wifi = 1; other_if.rssi = -90; other_if.rate = 11; memcpy(other_if.ssid, "other", 5); other_if.ssid_len = 5;
    pseudo = (e1_cfg){ .nev = 1 << 17, .ev_name = ps_name, .apply = ps_apply, .root_setup = ps_root };
    if (A.replay) { A.verbose = 1; return e1_replay_file(&pseudo, A.replay); }
    double t0 = vf_now_s();
    if (!strcmp(A.mode, "full")) {
        sweep_full((uint32_t)A.a, (uint32_t)A.b);
        vf_sample("interface type, IPv4, link speed: every 32-bit value in [0x%02lx000000, 0x%02lx000000) through setPhysicalMediumTLV / setIPv4TLV / setLinkSpeedTLV", A.a, A.b);
    } else {
        sweep_grid();
        IFX = 1; sweep_grid(); IFX = 0;      /* the same sweeps on the responder's second interface (the first one has different attributes) */
        vf_sample("characteristics flags: all 65536 values (wired and Wi-Fi); Wi-Fi rate: all 65536; RSSI: all 256; mode: all 256");
        vf_sample("machine name / SSID: every length 0..40 x 3 byte patterns x 2 port return conventions; 4096 subsets of failing getters x wired/Wi-Fi");
        vf_sample("MAC/BSSID/IPv6: every byte position x 256 values x 2 backgrounds; ifType/IPv4/speed: {00,01,7F,80,FF}^4 grid + walking bits; leading and trailing byte pair of MAC/BSSID/IPv6: all 65536 values");
    }
    R.evaluations = evals; R.exhaustive = 1; R.wall_s = vf_now_s() - t0;
    vf_write_results();
    return 0;
}
