/* C01 - frame reception is memory-safe and free of undefined behaviour (san flavour, E4).
 * Every execution = prefix . f1 . f2 on a fresh world, pushed through one of the receive entry
 * points exactly as the ports use them; AddressSanitizer / UBSan (no recovery) is the oracle and
 * runs in forked children (mc/forkrun.c).
 *   --mode linux  : switch_state_mapping + switch_state_session + parseFrame on a malloc(MTU) buffer
 *   --mode darwin : derive_session_event + table + automata + parseFrame + automata_tick (mc/darwin.c)
 *   --mode esp32  : lltd_esp32_handle_frame(ctx, exact-size heap copy, L) for every L in 0..MTU
 * --a = number of prefixes, --b = number of "first" frames (0 = tier default); --part/--nparts split f2. */
#include "../mc/darwin.h"
#include "../mc/forkrun.h"
#include "../mc/sigma.h"
#include "lltdBlock.h"

#include <stdlib.h>
#include <string.h>

#include "lltd_esp32.h"             /* from /repo/os/esp32/daemon */

/* ------------------------------------------------------------ shapes */
typedef struct shape { uint8_t opcode, tos, lenc, cntc, seqc, role, dtype, dpause, ltype, tail; } shape;
static shape *FULL; static int NFULL;
static shape FIRST[256]; static int NFIRST;
static size_t MTU;
static const uint8_t *OWN;

static size_t len_of(int lenc) { static const size_t L[15] = {0, 1, 13, 14, 17, 18, 31, 32, 33, 34, 35, 36, 37, 46, 50}; return lenc < 15 ? L[lenc] : lenc == 15 ? MTU - 1 : MTU; }
static unsigned fit_of(uint8_t opcode) { return opcode == 0x00 ? (unsigned)((MTU - 36) / 6) : opcode == 0x02 ? (unsigned)((MTU - 34) / 14) : 2600u; }
static uint16_t cnt_of(uint8_t opcode, int c) { unsigned f = fit_of(opcode); switch (c) { case 0: return 0; case 1: return 1; case 2: return (uint16_t)f; case 3: return (uint16_t)(f + 1); case 4: return 0x7FFF; case 5: return 0x8000; default: return 0xFFFF; } }
static uint16_t seq_of(int c) { return c == 0 ? 0 : c == 1 ? 1 : 0xFFFF; }
static const uint8_t ROLE[6][3] = { {ST_M1, ST_M1, ST_OWN}, {ST_M1, ST_BR, ST_OWN}, {ST_M2, ST_M2, ST_BC}, {ST_OWN, ST_OWN, ST_OWN}, {ST_BC, ST_BC, ST_M1}, {ST_M1, ST_M1, ST_M1} };
static const uint8_t *A_(int st) { return st == ST_OWN ? OWN : vf_station[st]; }

static void add_full(shape s) { FULL[NFULL++] = s; }
static void build_full(void) {
    FULL = malloc(sizeof(shape) * 200000); NFULL = 0;
    static const uint8_t ops8[8] = {0x00, 0x01, 0x02, 0x03, 0x04, 0x06, 0x08, 0x0B};
    static const uint8_t tos4[4] = {0, 1, 2, 0xFF};
    for (int oi = 0; oi < 8; oi++) for (int ti = 0; ti < 4; ti++) for (int lc = 0; lc < 17; lc++) for (int sc = 0; sc < 3; sc++) for (int r = 0; r < 6; r++) {
        uint8_t op = ops8[oi];
        int ncnt = (op == 0x00 || op == 0x02 || op == 0x0B || op == 0x01) ? 7 : 1;
        for (int cc = 0; cc < ncnt; cc++) {
            shape s = { op, tos4[ti], (uint8_t)lc, (uint8_t)cc, (uint8_t)sc, (uint8_t)r, 1, 0, 0x0E, 0 };
            add_full(s);
        }
    }
    /* Emit descriptor kinds x pauses; QueryLargeTlv: all 256 property types */
    static const uint8_t dt[4] = {0, 1, 2, 0xFF}, dp[2] = {0, 255};
    for (int ti = 0; ti < 4; ti++) for (int lc = 0; lc < 17; lc++) for (int cc = 0; cc < 7; cc++) for (int a = 0; a < 4; a++) for (int b = 0; b < 2; b++) {
        shape s = { 0x02, tos4[ti], (uint8_t)lc, (uint8_t)cc, 1, 0, dt[a], dp[b], 0, 0 }; add_full(s);
    }
    for (int ti = 0; ti < 4; ti++) for (int lc = 0; lc < 17; lc++) for (int ty = 0; ty < 256; ty++) for (int cc = 0; cc < 7; cc += 3) {
        shape s = { 0x0B, tos4[ti], (uint8_t)lc, (uint8_t)cc, 1, (uint8_t)(ty & 1), 1, 0, (uint8_t)ty, 0 }; add_full(s);
    }
    /* the other 248 opcodes */
    static const uint8_t tos6[6] = {0, 1, 2, 3, 0x80, 0xFF}; static const uint8_t lc5[5] = {0, 4, 5, 7, 16};
    for (int op = 0; op < 256; op++) {
        int known = 0; for (int i = 0; i < 8; i++) if (ops8[i] == op) known = 1;
        if (known) continue;
        for (int ti = 0; ti < 6; ti++) for (int l = 0; l < 5; l++) { shape s = { (uint8_t)op, tos6[ti], lc5[l], 0, 1, 0, 1, 0, 0, (uint8_t)(op & 1) }; add_full(s); }
    }
}
static void build_first(int want) {
    NFIRST = 0;
#define F(op, tos, cc, sc, r, dt_, dp_, lt, tl) do { shape s = { op, tos, 16, cc, sc, r, dt_, dp_, lt, tl }; if (NFIRST < want) FIRST[NFIRST++] = s; } while (0)
    F(0x00, 0, 2, 1, 0, 1, 0, 0, 0);      /* Discover from M1 with a maximal station list */
    F(0x02, 0, 2, 1, 0, 1, 255, 0, 0);    /* maximal Emit: a valid descriptor array fills the buffer */
    F(0x0D, 0, 0, 1, 0, 1, 0, 0, 1);      /* full-MTU image, tail all 0xFF */
    F(0x04, 0, 0, 1, 0, 1, 0, 0, 0);      /* Probe for us */
    F(0x0B, 0, 0, 1, 0, 1, 0, 0x0E, 0);   /* QueryLargeTlv icon: fills the cache */
    F(0x08, 0, 0, 1, 0, 1, 0, 0, 0);      /* Reset */
    F(0x0D, 1, 0, 1, 0, 1, 0, 0, 2);      /* full-MTU image, tail all 0x00 */
    F(0x06, 0, 0, 1, 1, 1, 0, 0, 0);      /* Query from a bridged mapper */
    F(0x00, 1, 6, 2, 1, 1, 0, 0, 1);      /* quick Discover, count 0xFFFF, tail 0xFF */
    F(0x02, 0, 6, 2, 0, 0, 0, 0, 0);      /* Emit declaring 0xFFFF descriptors */
    F(0x03, 0, 0, 1, 1, 1, 0, 0, 0);      /* Train, bridged */
    F(0x0B, 1, 6, 1, 0, 1, 0, 0x11, 0);   /* quick QueryLargeTlv friendly name, offset 0xFFFF */
    F(0x01, 0, 1, 0, 2, 1, 0, 0, 0);      /* Hello heard */
    F(0x08, 1, 0, 1, 0, 1, 0, 0, 0);      /* quick Reset */
    F(0x0B, 0, 2, 1, 0, 1, 0, 0x13, 0);   /* hardware id */
    F(0x09, 0, 0, 1, 0, 1, 0, 0, 0);      /* Charge */
    F(0x02, 0, 1, 1, 1, 0xFF, 7, 0, 0);   /* Emit with an unknown descriptor kind */
    F(0x00, 0, 0, 0, 3, 1, 0, 0, 2);      /* Discover whose real source is our own address */
    F(0x06, 0, 0, 2, 2, 1, 0, 0, 1);
    F(0x04, 0, 0, 1, 4, 1, 0, 0, 1);
    for (int op = 0; op < 13 && NFIRST < want; op++) for (int t = 0; t < 3 && NFIRST < want; t++) F((uint8_t)op, (uint8_t)t, (uint8_t)(3 + t), (uint8_t)t, (uint8_t)((op + t) % 6), (uint8_t)t, 255, (uint8_t)(0x0E + op), (uint8_t)t);
#undef F
}

static size_t render(const shape *s, uint8_t *img) {
    /* full MTU image: fixed part, then a maximal well-formed body, then the tail pattern */
    memset(img, s->tail == 1 ? 0xFF : s->tail == 2 ? 0x00 : 0xEE, MTU);
    const uint8_t *rs = A_(ROLE[s->role][0]), *es = A_(ROLE[s->role][1]), *rd = A_(ROLE[s->role][2]);
    fb_base(img, rd, es, s->tos, s->opcode, rd, rs, seq_of(s->seqc));
    uint16_t c = cnt_of(s->opcode, s->cntc);
    if (s->opcode == 0x00 || s->opcode == 0x01) {
        img[32] = (uint8_t)(c >> 8); img[33] = (uint8_t)c;           /* generation */
        if (s->opcode == 0x00) {
            img[34] = (uint8_t)(c >> 8); img[35] = (uint8_t)c;       /* station count */
            if (!s->tail) { unsigned f = fit_of(0x00); for (unsigned i = 0; i < f; i++) { uint8_t a[6] = {0, 0x1b, 0x21, 0, (uint8_t)(i >> 8), (uint8_t)i}; memcpy(img + 36 + 6 * i, i == f - 1 ? OWN : a, 6); } }
        } else if (!s->tail) { memcpy(img + 34, vf_station[ST_M1], 6); memcpy(img + 40, vf_station[ST_M1], 6); img[46] = 1; img[47] = 6; memcpy(img + 48, rs, 6); img[54] = 0; }
    } else if (s->opcode == 0x02) {
        img[32] = (uint8_t)(c >> 8); img[33] = (uint8_t)c;
        if (!s->tail) { unsigned f = fit_of(0x02); for (unsigned i = 0; i < f; i++) { uint8_t *p = img + 34 + 14 * i; p[0] = s->dtype; p[1] = s->dpause; memcpy(p + 2, vf_station[ST_S0], 6); memcpy(p + 8, (i & 1) ? OWN : vf_station[ST_PEER], 6); } }
    } else if (s->opcode == 0x0B) { img[32] = s->ltype; img[33] = 0; img[34] = (uint8_t)(c >> 8); img[35] = (uint8_t)c; }
    return len_of(s->lenc);
}

/* ------------------------------------------------------------ execution */
static int drv;                        /* 0 linux, 1 darwin, 2 esp32 */
static int NPRE; static int NF1;
static uint8_t *recvbuf;               /* exactly MTU bytes, as the daemons allocate it */
static automata *amap, *asess; static dw_iface D;

static void deliver(const uint8_t *img, size_t L, unsigned pat) {
    if (L == 0 && drv == 0) return;    /* Linux: 'if (bytes <= 0) continue'; the Darwin loop goes on with recvLen == 0 */
    if (L > MTU) L = MTU;
    memcpy(recvbuf, img, L);
    W.cur_request++;
    if (drv == 0) {
        lltd_demultiplex_header_t *h = (lltd_demultiplex_header_t *)recvbuf;
        if (amap) switch_state_mapping(amap, h->opcode, "rx");
        if (asess) switch_state_session(asess, h->opcode, "rx");
        parseFrame(recvbuf, vf_ctx(0));
    } else {
        if (pat == 1) dw_tick(&D);
        if (pat == 2) { W.now_ms += 1100; dw_tick(&D); }
        if (pat == 3) { W.now_ms += 31000; dw_tick(&D); W.now_ms += 30500; dw_tick(&D); }
        dw_frame(&D, recvbuf, L);
    }
}
static void deliver_pev(const pev *e) { static uint8_t b[VF_MAXMTU + 64]; size_t n = pev_build(e, 0, b); deliver(b, n, 0); }

static void prefix(int p) {
    pev e;
    if (p >= 1) { e = ev_discover(0, ST_M1, ST_M1, 0x1234, 1); e.nsta = 1; e.own_pos = 0; deliver_pev(&e); }
    if (p == 2) { e = ev_probe(0x04, 0, ST_S0, ST_S0, ST_OWN, ST_OWN); deliver_pev(&e); e = ev_probe(0x03, 0, ST_S1, ST_BR, ST_OWN, ST_OWN); deliver_pev(&e); }
    if (p == 3) { e = ev_qlt(0, ST_M1, ST_M1, 5, 0x0E, 0); deliver_pev(&e); }
    if (p == 4) { e = ev_discover(1, ST_M2, ST_BR, 0x0002, 7); deliver_pev(&e); e = ev_hello(0, ST_PEER, 0x3412); deliver_pev(&e); e = ev_emit1(0, ST_M1, ST_M1, 9, 1, 0, ST_S0, ST_PEER); deliver_pev(&e); }
}

static void decode(uint64_t idx, int *p, int *f1, int *f2) { *f2 = (int)(idx % (uint64_t)NFULL); idx /= (uint64_t)NFULL; *f1 = (int)(idx % (uint64_t)(NF1 + 1)); *p = (int)(idx / (uint64_t)(NF1 + 1)); }

static uint8_t img[VF_MAXMTU + 64];
static void exec_main(uint64_t idx) {
    int p, f1, f2; decode(idx, &p, &f1, &f2);
    vf_world_reset();
    memset(recvbuf, (int)A.fill, MTU);
    vf_trace_clear();
    if (drv == 0) { amap = init_automata_mapping(); asess = init_automata_session(); }
    else { dw_init(&D, 0); D.call_parse_frame = 1; }
    prefix(p);
    if (f1) { size_t L = render(&FIRST[f1 - 1], img); deliver(img, L, (unsigned)(idx & 3)); vf_trace_clear(); }
    size_t L = render(&FULL[f2], img); deliver(img, L, (unsigned)((idx >> 2) & 3));
    if ((idx & 0xfff) == 0 || (idx % (uint64_t)NFULL) < 8) vf_outcome(vf_trace_hash() ^ (uint64_t)FULL[f2].opcode);
    vf_trace_clear();
}
static void shape_json(FILE *f, const shape *s) { fprintf(f, "{\"opcode\":%u,\"tos\":%u,\"recv_len\":%zu,\"counter\":%u,\"seq\":%u,\"role\":%u,\"desc_type\":%u,\"desc_pause\":%u,\"ltype\":%u,\"tail\":%u}", s->opcode, s->tos, len_of(s->lenc), cnt_of(s->opcode, s->cntc), seq_of(s->seqc), s->role, s->dtype, s->dpause, s->ltype, s->tail); }
static void describe_main(uint64_t idx, FILE *f) {
    int p, f1, f2; decode(idx, &p, &f1, &f2);
    fprintf(f, "\"events\":[%llu],\"prefix\":%d,\"f1\":", (unsigned long long)idx, p);
    if (f1) shape_json(f, &FIRST[f1 - 1]); else fprintf(f, "null");
    fprintf(f, ",\"f2\":"); shape_json(f, &FULL[f2]);
}

/* esp32: idx = image * (MTU+1) + L */
static int NIMG;
static void exec_esp(uint64_t idx) {
    int im = (int)(idx / (MTU + 1)); size_t L = (size_t)(idx % (MTU + 1));
    vf_world_reset();
    static lltd_esp32_ctx_t ctx; lltd_esp32_init(&ctx);
    const shape *s = im < NFIRST ? &FIRST[im] : &FULL[(size_t)(im - NFIRST) * 97 % (size_t)NFULL];
    render(s, img);
    uint8_t *copy = malloc(L ? L : 1);
    memcpy(copy, img, L);
    lltd_esp32_handle_frame(&ctx, copy, L);
    if (ctx.mapping && (L & 0x3f) == 0) vf_outcome(vf_hash64(&ctx.mapping->current_state, 1, (uint64_t)(L >= 32) * 3 + s->opcode));
    free(copy);
}
static void describe_esp(uint64_t idx, FILE *f) {
    int im = (int)(idx / (MTU + 1)); size_t L = (size_t)(idx % (MTU + 1));
    const shape *s = im < NFIRST ? &FIRST[im] : &FULL[(size_t)(im - NFIRST) * 97 % (size_t)NFULL];
    fprintf(f, "\"events\":[%llu],\"told_length\":%zu,\"image\":", (unsigned long long)idx, L); shape_json(f, s);
}

int main(int argc, char **argv) {
    vf_parse_args(argc, argv, "C01");
    vf_world_init(A.mtu, A.wifi, (uint8_t)A.fill);
    MTU = A.mtu; OWN = W.iface[0].mac;
    drv = !strcmp(A.mode, "darwin") ? 1 : !strcmp(A.mode, "esp32") ? 2 : 0;
    build_full();
    NPRE = A.a > 0 ? (int)A.a : (vf_thorough() ? 5 : 3);
    NF1 = A.b > 0 ? (int)A.b : (vf_thorough() ? 60 : 20);
    build_first(NF1);
    NF1 = NFIRST;
    recvbuf = malloc(MTU);
    double t0 = vf_now_s();
    fr_cfg fc = { .exec = drv == 2 ? exec_esp : exec_main, .describe = drv == 2 ? describe_esp : describe_main, .sig_prefix = "memory-safety" };
    fr_stats st;
    if (A.replay) {
        FILE *f = fopen(A.replay, "r"); static char buf[1 << 16]; size_t n = f ? fread(buf, 1, sizeof buf - 1, f) : 0; buf[n] = 0; if (f) fclose(f);
        char *q = strstr(buf, "\"events\":["); if (!q) return 2;
        uint64_t idx = strtoull(q + 10, NULL, 10);
        A.verbose = 1; fc.max_same_sig = 1;
        for (int round = 0; round < 2; round++) { fr_run(&fc, idx, idx + 1, &st); printf("replay round %d of execution %llu: %s\n", round, (unsigned long long)idx, st.deaths ? "sanitizer report / crash reproduced" : "ran clean"); }
        return vf_nviolations() ? 1 : 0;
    }
    uint64_t total, lo, hi;
    if (drv == 2) { NIMG = NFIRST + 40; total = (uint64_t)NIMG * (MTU + 1); lo = total * (uint64_t)A.part / (uint64_t)A.nparts; hi = total * (uint64_t)(A.part + 1) / (uint64_t)A.nparts; }
    else { total = (uint64_t)NPRE * (uint64_t)(NF1 + 1) * (uint64_t)NFULL; lo = total * (uint64_t)A.part / (uint64_t)A.nparts; hi = total * (uint64_t)(A.part + 1) / (uint64_t)A.nparts; }
    fr_run(&fc, lo, hi, &st);
    R.evaluations = st.executed; R.exhaustive = st.cap == NULL; R.cap_hit = st.cap;
    if (drv == 2) vf_sample("esp32 entry: %d frame images x every told length 0..%zu, each handed over as a heap block of exactly that length", NIMG, MTU);
    else vf_sample("%s flavour: %d prefixes x (%d first frames + none) x %d second frames (per-opcode field-class products, all 256 opcodes), MTU %zu, receive buffer malloc(MTU) pre-filled with 0x%02x; executions [%llu,%llu) of %llu", drv ? "darwin" : "linux", NPRE, NF1, NFULL, MTU, A.fill, (unsigned long long)lo, (unsigned long long)hi, (unsigned long long)total);
    vf_extra("shape_space", "%d second-frame shapes, %d first-frame shapes, %d prefixes", NFULL, NF1, NPRE);
    R.wall_s = vf_now_s() - t0;
    vf_write_results();
    return 0;
}
