/* C01 - frame reception is memory-safe and free of undefined behaviour (san flavour, E4).
 * Every execution = prefix . f1 . f2 on a fresh world, pushed through one of the receive entry
 * points exactly as the ports use them; AddressSanitizer / UBSan (no recovery) is the oracle and
 * runs in forked children (mc/forkrun.c).
 *   --mode linux  : switch_state_mapping + switch_state_session + parseFrame on a malloc(MTU) buffer
 *   --mode darwin : derive_session_event + table + automata + parseFrame + automata_tick (mc/darwin.c)
 *   --mode esp32  : lltd_esp32_handle_frame(ctx, exact-size heap copy, L) for every L in 0..MTU
 * --a = number of prefixes, --b = number of "first" frames (0 = tier default); --part/--nparts split f2. */
#include "../mc/darwin.h"
#include "../mc/forkrun.h"
#include "../mc/sigma.h"
#include "lltdBlock.h"

#include <stdlib.h>
#include <string.h>

#include "lltd_esp32.h"             /* from /repo/os/esp32/daemon */

#include "shapes.h"

/* ------------------------------------------------------------ execution */
static int drv;                        /* 0 linux, 1 darwin, 2 esp32 */
static int NPRE; static int NF1;
static uint8_t *recvbuf;               /* exactly MTU bytes, as the daemons allocate it */
static automata *amap, *asess; static dw_iface D;

static void deliver(const uint8_t *img, size_t L, unsigned pat) {
    if (L == 0 && drv == 0) return;    /* Linux: 'if (bytes <= 0) continue'; the Darwin loop goes on with recvLen == 0 */
    if (L > MTU) L = MTU;
    memcpy(recvbuf, img, L);
    W.cur_request++;
    if (drv == 0) {
        lltd_demultiplex_header_t *h = (lltd_demultiplex_header_t *)recvbuf;
        if (amap) switch_state_mapping(amap, h->opcode, "rx");
        if (asess) switch_state_session(asess, h->opcode, "rx");
        parseFrame(recvbuf, vf_ctx(0));
    } else {
        if (pat == 1) dw_tick(&D);
        if (pat == 2) { W.now_ms += 1100; dw_tick(&D); }
        if (pat == 3) { W.now_ms += 31000; dw_tick(&D); W.now_ms += 30500; dw_tick(&D); }
        dw_frame(&D, recvbuf, L);
    }
}
static void deliver_pev(const pev *e) { static uint8_t b[VF_MAXMTU + 64]; size_t n = pev_build(e, 0, b); deliver(b, n, 0); }

static void prefix(int p) {
    pev e;
    if (p >= 1) { e = ev_discover(0, ST_M1, ST_M1, 0x1234, 1); e.nsta = 1; e.own_pos = 0; deliver_pev(&e); }
    if (p == 2) { e = ev_probe(0x04, 0, ST_S0, ST_S0, ST_OWN, ST_OWN); deliver_pev(&e); e = ev_probe(0x03, 0, ST_S1, ST_BR, ST_OWN, ST_OWN); deliver_pev(&e); }
    if (p == 3) { e = ev_qlt(0, ST_M1, ST_M1, 5, 0x0E, 0); deliver_pev(&e); }
    if (p == 4) { e = ev_discover(1, ST_M2, ST_BR, 0x0002, 7); deliver_pev(&e); e = ev_hello(0, ST_PEER, 0x3412); deliver_pev(&e); e = ev_emit1(0, ST_M1, ST_M1, 9, 1, 0, ST_S0, ST_PEER); deliver_pev(&e); }
}

static void decode(uint64_t idx, int *p, int *f1, int *f2) { *f2 = (int)(idx % (uint64_t)NFULL); idx /= (uint64_t)NFULL; *f1 = (int)(idx % (uint64_t)(NF1 + 1)); *p = (int)(idx / (uint64_t)(NF1 + 1)); }

static uint8_t img[VF_MAXMTU + 64];
static void exec_main(uint64_t idx) {
    int p, f1, f2; decode(idx, &p, &f1, &f2);
    vf_world_reset();
    memset(recvbuf, (int)A.fill, MTU);
    vf_trace_clear();
    if (drv == 0) { amap = init_automata_mapping(); asess = init_automata_session(); }
    else { dw_init(&D, 0); D.call_parse_frame = 1; }
    prefix(p);
    if (f1) { size_t L = render(&FIRST[f1 - 1], img); deliver(img, L, (unsigned)(idx & 3)); vf_trace_clear(); }
    size_t L = render(&FULL[f2], img); deliver(img, L, (unsigned)((idx >> 2) & 3));
    if ((idx & 0xfff) == 0 || (idx % (uint64_t)NFULL) < 8) vf_outcome(vf_trace_hash() ^ (uint64_t)FULL[f2].opcode);
    vf_trace_clear();
}
static void describe_main(uint64_t idx, FILE *f) {
    int p, f1, f2; decode(idx, &p, &f1, &f2);
    fprintf(f, "\"events\":[%llu],\"prefix\":%d,\"f1\":", (unsigned long long)idx, p);
    if (f1) shape_json(f, &FIRST[f1 - 1]); else fprintf(f, "null");
    fprintf(f, ",\"f2\":"); shape_json(f, &FULL[f2]);
}

/* linux2: two interfaces with different MTUs served by one responder (as every daemon does): f1 on one interface,
 * f2 on the other, both orders; each interface has its own malloc(its MTU) receive buffer.
 * idx = ((order * (NF1+1)) + f1) * NFULL + f2 */
static uint8_t *recv2[2]; static size_t mtu2[2]; static automata *amap2[2], *asess2[2];
static void deliver2(int ifc, const shape *s) {
    MTU = mtu2[ifc]; OWN = W.iface[ifc].mac;
    size_t L = render(s, img);
    if (L == 0) return;
    memcpy(recv2[ifc], img, L);
    lltd_demultiplex_header_t *h = (lltd_demultiplex_header_t *)recv2[ifc];
    switch_state_mapping(amap2[ifc], h->opcode, "rx"); switch_state_session(asess2[ifc], h->opcode, "rx");
    parseFrame(recv2[ifc], vf_ctx(ifc));
}
static void exec_two(uint64_t idx) {
    int f2 = (int)(idx % (uint64_t)NFULL); uint64_t r = idx / (uint64_t)NFULL; int f1 = (int)(r % (uint64_t)(NF1 + 1)); int order = (int)(r / (uint64_t)(NF1 + 1));
    vf_world_reset(); vf_trace_clear();
    for (int i = 0; i < 2; i++) { memset(recv2[i], (int)A.fill, mtu2[i]); amap2[i] = init_automata_mapping(); asess2[i] = init_automata_session(); }
    int a = order, b = 1 - order;
    if (f1) deliver2(a, &FIRST[f1 - 1]);
    else { shape s = { 0x02, 0, 16, 1, 1, 0, 1, 0, 0, 0 }; deliver2(a, &s); }       /* no scripted first frame: a one-descriptor Emit on the first interface */
    vf_trace_clear();
    deliver2(b, &FULL[f2]);
    if ((idx & 0xfff) == 0) vf_outcome(vf_trace_hash() ^ (uint64_t)order);
    vf_trace_clear();
    MTU = mtu2[0]; OWN = W.iface[0].mac;
}
static void describe_two(uint64_t idx, FILE *f) {
    int f2 = (int)(idx % (uint64_t)NFULL); uint64_t r = idx / (uint64_t)NFULL; int f1 = (int)(r % (uint64_t)(NF1 + 1)); int order = (int)(r / (uint64_t)(NF1 + 1));
    fprintf(f, "\"events\":[%llu],\"first_interface\":%d,\"mtu_if0\":%zu,\"mtu_if1\":%zu,\"f1\":", (unsigned long long)idx, order, mtu2[0], mtu2[1]);
    if (f1) shape_json(f, &FIRST[f1 - 1]); else fprintf(f, "\"one-descriptor Emit\"");
    MTU = mtu2[1 - order]; fprintf(f, ",\"f2\":"); shape_json(f, &FULL[f2]); MTU = mtu2[0];
}

/* the wireless configurations also stand for a platform whose string attributes have their maximal legal length */
static void rich_platform(void) { if (A.wifi) vf_rich_platform(); }
/* flood: idx = mtu_index * 6 + variant.  Full see-lists at every alignment of the frame end: a Discover, n distinct
 * observations (n around the QueryResp capacity), two Queries, a second round. */
static const int FLOOD_MTUS[] = {576, 577, 578, 579, 580, 581, 582, 583, 584, 585, 586, 587, 588, 589, 590, 591, 592, 593, 594, 595, 1492, 1493, 1500, 9212, 9216};
#define NFLOOD_MTU ((int)(sizeof FLOOD_MTUS / sizeof FLOOD_MTUS[0]))
static void exec_flood(uint64_t idx) {
    int mi = (int)(idx / 7), v = (int)(idx % 7);
    size_t mtu = (size_t)FLOOD_MTUS[mi];
    vf_world_init(mtu, (int)A.wifi, (uint8_t)A.fill); rich_platform();
    MTU = mtu; OWN = W.iface[0].mac;
    free(recvbuf); recvbuf = malloc(MTU); memset(recvbuf, (int)A.fill, MTU);
    drv = 0; amap = init_automata_mapping(); asess = init_automata_session();
    int cap = (int)((mtu - 34) / 20);
    int n = v == 0 ? cap - 1 : v == 1 ? cap : v == 2 ? cap + 1 : v == 3 ? cap + 2 : v == 4 ? 2 * cap + 1 : v == 5 ? cap + 30 : 1030;      /* 1030: beyond the responder's own bound on recorded observations */
    pev e = ev_discover(0, ST_M1, ST_M1, 0x1234, 1); deliver_pev(&e);
    for (int round = 0; round < 2; round++) {
        for (int k = 0; k < n; k++) {
            uint8_t f[32]; uint8_t src[6] = {0x00, 0x50, 0x56, (uint8_t)round, (uint8_t)(k >> 8), (uint8_t)k};
            fb_base(f, OWN, (k % 3 == 0) ? vf_station[ST_BR] : src, 0, (k & 1) ? 0x04 : 0x03, OWN, src, 0);
            deliver(f, 32, 0);
        }
        pev q = ev_query(0, ST_M1, round ? ST_BR : ST_M1, (uint16_t)(5 + round)); deliver_pev(&q); deliver_pev(&q);
        vf_outcome(vf_trace_hash() ^ (uint64_t)n);
        vf_trace_clear();
    }
}
static void describe_flood(uint64_t idx, FILE *f) {
    int mi = (int)(idx / 7), v = (int)(idx % 7);
    fprintf(f, "\"events\":[%llu],\"flood_mtu\":%d,\"flood_variant\":%d,\"history\":\"Discover; n distinct Probe/Train observations (n = capacity-1, capacity, +1, +2, 2*capacity+1, capacity+30 by variant); Query x2; second round\"", (unsigned long long)idx, FLOOD_MTUS[mi], v);
}

/* esp32: idx = image * (MTU+1) + L */
static int NIMG;
static void exec_esp(uint64_t idx) {
    int im = (int)(idx / (MTU + 1)); size_t L = (size_t)(idx % (MTU + 1));
    vf_world_reset();
    static lltd_esp32_ctx_t ctx; lltd_esp32_init(&ctx);
    const shape *s = im < NFIRST ? &FIRST[im] : &FULL[(size_t)(im - NFIRST) * 97 % (size_t)NFULL];
    render(s, img);
    uint8_t *copy = malloc(L ? L : 1);
    memcpy(copy, img, L);
    lltd_esp32_handle_frame(&ctx, copy, L);
    if (ctx.mapping && (L & 0x3f) == 0) vf_outcome(vf_hash64(&ctx.mapping->current_state, 1, (uint64_t)(L >= 32) * 3 + s->opcode));
    free(copy);
}
static void describe_esp(uint64_t idx, FILE *f) {
    int im = (int)(idx / (MTU + 1)); size_t L = (size_t)(idx % (MTU + 1));
    const shape *s = im < NFIRST ? &FIRST[im] : &FULL[(size_t)(im - NFIRST) * 97 % (size_t)NFULL];
    fprintf(f, "\"events\":[%llu],\"told_length\":%zu,\"image\":", (unsigned long long)idx, L); shape_json(f, s);
}

/* hello: idx -> one interface attribute tuple; a topology and a quick Discover are answered (Hello assembly) under ASan/UBSan.
 * characteristics word {0, every single bit, all ones} (18) x {wired, wireless} x machine-name length {0,1,31,32,33,63} x
 * SSID length {0,1,31,32,33,40} x getters {all answer, BSSID fails, all but the hardware address fail} x link speed / ifType extremes */
#define NHELLO (18 * 2 * 6 * 6 * 3 * 2)
static void hello_tuple(uint64_t idx, int *fl, int *wifi, int *nl, int *sl, int *gf, int *ex) {
    static const int NL[6] = {0, 1, 31, 32, 33, 63}, SL[6] = {0, 1, 31, 32, 33, 40};
    *ex = (int)(idx % 2); idx /= 2; *gf = (int)(idx % 3); idx /= 3; *sl = SL[idx % 6]; idx /= 6; *nl = NL[idx % 6]; idx /= 6; *wifi = (int)(idx % 2); idx /= 2; *fl = (int)idx;
}
static void exec_hello(uint64_t idx) {
    int fl, wifi, nl, sl, gf, ex; hello_tuple(idx, &fl, &wifi, &nl, &sl, &gf, &ex);
    vf_world_init(MTU, wifi, (uint8_t)A.fill);
    vf_iface *fi = &W.iface[0];
    fi->flags = fl == 0 ? 0 : fl == 17 ? 0xFFFFFFFFu : (1u << (fl - 1));
    for (int i = 0; i < nl; i++) W.host.hostname[i] = (uint8_t)('a' + i % 26); W.host.hostname_len = (size_t)nl;
    for (int i = 0; i < sl; i++) fi->ssid[i] = (uint8_t)('A' + i % 26); fi->ssid_len = (size_t)sl;
    if (ex) { fi->speed = 0xFFFFFFFFu; fi->iftype = 0xFFFFFFFFu; fi->rate = 0xFFFF; fi->rssi = -128; fi->phy = 0xFF; }
    fi->fail = gf == 1 ? VF_G_BSSID : gf == 2 ? ~(uint32_t)VF_G_MAC : 0; W.host.fail = gf == 2 ? 0xFFFFFFFFu : 0;
    OWN = W.iface[0].mac;
    free(recvbuf); recvbuf = malloc(MTU); memset(recvbuf, (int)A.fill, MTU);
    drv = 0; amap = init_automata_mapping(); asess = init_automata_session();
    pev d0 = ev_discover(0, ST_M1, ST_M1, 0x1234, 1), d1 = ev_discover(1, ST_M1, ST_BR, 0x4321, 2);
    vf_trace_clear(); deliver_pev(&d0); deliver_pev(&d1);
    if ((idx & 0x1f) == 0) vf_outcome(vf_trace_hash());
}
static void describe_hello(uint64_t idx, FILE *f) {
    int fl, wifi, nl, sl, gf, ex; hello_tuple(idx, &fl, &wifi, &nl, &sl, &gf, &ex);
    fprintf(f, "\"events\":[%llu],\"characteristics_case\":%d,\"wireless\":%d,\"machine_name_len\":%d,\"ssid_len\":%d,\"getter_failures\":%d,\"extreme_numbers\":%d", (unsigned long long)idx, fl, wifi, nl, sl, gf, ex);
}

int main(int argc, char **argv) {
    vf_parse_args(argc, argv, "C01");
    vf_world_init(A.mtu, A.wifi, (uint8_t)A.fill); rich_platform();
    MTU = A.mtu; OWN = W.iface[0].mac;
    drv = !strcmp(A.mode, "darwin") ? 1 : !strcmp(A.mode, "esp32") ? 2 : 0;
    int flood = !strcmp(A.mode, "flood"); int two = !strcmp(A.mode, "linux2"); int hello = !strcmp(A.mode, "hello");
    build_full();
    NPRE = A.a > 0 ? (int)A.a : (vf_thorough() ? 5 : 3);
    NF1 = A.b > 0 ? (int)A.b : (vf_thorough() ? 40 : 8);
    build_first(NF1);
    NF1 = NFIRST;
    recvbuf = malloc(MTU);
    double t0 = vf_now_s();
    if (two) { mtu2[0] = MTU; mtu2[1] = MTU == 576 ? 1500 : 576; W.iface[1].mtu = mtu2[1]; recv2[0] = malloc(mtu2[0]); recv2[1] = malloc(mtu2[1]); }
    fr_cfg fc = { .exec = hello ? exec_hello : two ? exec_two : flood ? exec_flood : drv == 2 ? exec_esp : exec_main, .describe = hello ? describe_hello : two ? describe_two : flood ? describe_flood : drv == 2 ? describe_esp : describe_main, .sig_prefix = "memory-safety" };
    fr_stats st;
    if (A.replay) {
        FILE *f = fopen(A.replay, "r"); static char buf[1 << 16]; size_t n = f ? fread(buf, 1, sizeof buf - 1, f) : 0; buf[n] = 0; if (f) fclose(f);
        char *q = strstr(buf, "\"events\":["); if (!q) return 2;
        uint64_t idx = strtoull(q + 10, NULL, 10);
        A.verbose = 1; fc.max_same_sig = 1;
        for (int round = 0; round < 2; round++) { fr_run(&fc, idx, idx + 1, &st); printf("replay round %d of execution %llu: %s\n", round, (unsigned long long)idx, st.deaths ? "sanitizer report / crash reproduced" : "ran clean"); }
        return vf_nviolations() ? 1 : 0;
    }
    uint64_t total, lo, hi;
    if (hello) { total = NHELLO; lo = 0; hi = total; }
    else if (flood) { total = (uint64_t)NFLOOD_MTU * 7; lo = 0; hi = total; }
    else if (two) { total = 2ull * (uint64_t)(NF1 + 1) * (uint64_t)NFULL; lo = total * (uint64_t)A.part / (uint64_t)A.nparts; hi = total * (uint64_t)(A.part + 1) / (uint64_t)A.nparts; }
    else if (drv == 2) { NIMG = NFIRST + 40; total = (uint64_t)NIMG * (MTU + 1); lo = total * (uint64_t)A.part / (uint64_t)A.nparts; hi = total * (uint64_t)(A.part + 1) / (uint64_t)A.nparts; }
    else { total = (uint64_t)NPRE * (uint64_t)(NF1 + 1) * (uint64_t)NFULL; lo = total * (uint64_t)A.part / (uint64_t)A.nparts; hi = total * (uint64_t)(A.part + 1) / (uint64_t)A.nparts; }
    fr_run(&fc, lo, hi, &st);
    R.evaluations = st.executed; R.exhaustive = st.cap == NULL; R.cap_hit = st.cap;
    if (hello) vf_sample("Hello assembly: %d interface attribute tuples (characteristics word {0, each single bit, all ones} x wired/wireless x machine-name length {0,1,31,32,33,63} x SSID length {0,1,31,32,33,40} x getter failures {none, BSSID, all but the hardware address} x numeric extremes), a topology and a bridged quick Discover each, under ASan/UBSan", NHELLO);
    else if (two) vf_sample("two interfaces (MTU %zu and %zu) on one responder: (%d first frames + a one-descriptor Emit) on one interface, then each of %d second frames on the other, both orders; executions [%llu,%llu)", mtu2[0], mtu2[1], NF1, NFULL, (unsigned long long)lo, (unsigned long long)hi);
    else if (flood) vf_sample("flood: %d MTUs (every residue mod 20 and 14, PPPoE, jumbo) x 7 see-list sizes (around the QueryResp capacity, and 1030) x 2 rounds of [observations ; Query ; Query] under ASan/UBSan", NFLOOD_MTU);
    else if (drv == 2) vf_sample("esp32 entry: %d frame images x every told length 0..%zu, each handed over as a heap block of exactly that length", NIMG, MTU);
    else vf_sample("%s flavour: %d prefixes x (%d first frames + none) x %d second frames (per-opcode field-class products, all 256 opcodes), MTU %zu, receive buffer malloc(MTU) pre-filled with 0x%02x; executions [%llu,%llu) of %llu", drv ? "darwin" : "linux", NPRE, NF1, NFULL, MTU, A.fill, (unsigned long long)lo, (unsigned long long)hi, (unsigned long long)total);
    vf_extra("shape_space", "%d second-frame shapes, %d first-frame shapes, %d prefixes", NFULL, NF1, NPRE);
    R.wall_s = vf_now_s() - t0;
    vf_write_results();
    return 0;
}
