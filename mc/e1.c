/* E1: explicit-state breadth-first explorer over the real transition function.
 * State = (canonical heap graph of the implementation, reference-model bytes,
 * optional extra key).  The visited set stores 128-bit hashes of that key
 * (hash compaction; two independent 64-bit hashes). */
#include "vf.h"

#include <stdlib.h>
#include <string.h>

typedef struct st { uint32_t parent; int32_t ev; uint32_t depth; uint64_t h1; vf_snap *snap; } st;
static st *S; static uint64_t nS, capS;
typedef struct slot { uint64_t h1, h2; } slot;
static slot *T; static uint64_t capT, usedT;
static const e1_cfg *C;
static uint64_t cur_state; static int cur_ev = -1;
static uint8_t *keybuf; static size_t keycap = 1u << 20;
uint64_t *e1_outhash; uint64_t e1_outhash_n; static uint64_t outhash_cap;
extern int vf_suppress;

static vf_snap *take_snap(void) {
    if (C->state_size) {       /* compact custom state + the core's own writable sections (a static added to the core must not escape) */
        size_t cs = vf_core_size();
        vf_snap *s = malloc(sizeof *s + C->state_size + cs);
        if (!s) vf_harness_error("out of memory (states)");
        s->size = (uint32_t)(C->state_size + cs); C->save(s->data); vf_core_save(s->data + C->state_size); return s;
    }
    return vf_snapshot(C->model, C->model_size);
}
static void put_snap(const vf_snap *s) { if (C->state_size) { C->restore(s->data); vf_core_load(s->data + C->state_size); } else vf_restore(s, C->model, C->model_size); }

static int tab_insert(uint64_t h1, uint64_t h2) {          /* 1 if new */
    if (h1 == 0 && h2 == 0) h2 = 1;
    if ((usedT + 1) * 10 > capT * 7) {
        uint64_t nc = capT ? capT * 2 : (1u << 16);
        slot *nt = calloc(nc, sizeof *nt);
        if (!nt) vf_harness_error("out of memory (visited set)");
        for (uint64_t i = 0; i < capT; i++) if (T[i].h1 || T[i].h2) {
            uint64_t j = T[i].h1 & (nc - 1);
            while (nt[j].h1 || nt[j].h2) j = (j + 1) & (nc - 1);
            nt[j] = T[i];
        }
        free(T); T = nt; capT = nc;
    }
    uint64_t j = h1 & (capT - 1);
    while (T[j].h1 || T[j].h2) { if (T[j].h1 == h1 && T[j].h2 == h2) return 0; j = (j + 1) & (capT - 1); }
    T[j].h1 = h1; T[j].h2 = h2; usedT++;
    return 1;
}

static void compute_key(uint64_t *h1, uint64_t *h2) {
    size_t n = C->no_heap_key ? 0 : vf_canon(keybuf, keycap - 4096);
    if (C->model_size && !C->no_model_key) { memcpy(keybuf + n, C->model, C->model_size); n += C->model_size; }
    if (C->extra_key) n += C->extra_key(keybuf + n, keycap - n);
    if (C->no_heap_key) { vf_core_save(keybuf + n); n += vf_core_size(); }      /* time-abstracted keys still see the core's statics */
    *h1 = vf_hash64(keybuf, n, 1);
    *h2 = vf_hash64(keybuf, n, 0x5bd1e995);
}

static void cex_writer(FILE *f);
static void cex_writer_fwd(FILE *f) { cex_writer(f); }

static const int *manual_path; static int manual_n;
void e1_manual_path(const e1_cfg *c, const int *ev, int n) { C = c; manual_path = ev; manual_n = n; vf_cex_writer = cex_writer_fwd; }

void e1_current_path(vf_path *p) {
    int tmp[4096]; int n = 0;
    if (manual_path) { p->n = manual_n; for (int i = 0; i < manual_n; i++) p->ev[i] = manual_path[i]; return; }
    if (cur_ev >= 0) tmp[n++] = cur_ev;
    uint64_t s = cur_state;
    while (S && s != 0 && n < 4095) { tmp[n++] = S[s].ev; s = S[s].parent; }
    p->n = n;
    for (int i = 0; i < n; i++) p->ev[i] = tmp[n - 1 - i];
}

static void cex_writer(FILE *f) {
    vf_path p; e1_current_path(&p);
    fprintf(f, "\"events\":[");
    for (int i = 0; i < p.n; i++) fprintf(f, "%s%d", i ? "," : "", p.ev[i]);
    fprintf(f, "],\"event_names\":[");
    for (int i = 0; i < p.n; i++) {
        char nm[160]; C->ev_name(p.ev[i], nm, sizeof nm);
        fprintf(f, "%s\"", i ? "," : "");
        for (char *c = nm; *c; c++) if (*c != '"' && *c != '\\' && (unsigned char)*c >= 0x20) fputc(*c, f);
        fprintf(f, "\"");
    }
    fprintf(f, "]");
}

static void describe(char *out, size_t cap) {
    vf_path p; e1_current_path(&p);
    size_t o = 0;
    for (int i = 0; i < p.n && o + 200 < cap; i++) {
        char nm[160]; C->ev_name(p.ev[i], nm, sizeof nm);
        o += (size_t)snprintf(out + o, cap - o, "%s%s", i ? " ; " : "", nm);
    }
    o += (size_t)snprintf(out + o, cap - o, "  =>");
    if (W.ntrace == 0) o += (size_t)snprintf(out + o, cap - o, " (nothing sent)");
    for (uint32_t i = 0; i < W.ntrace && o + 80 < cap; i++) {
        vf_trec *t = &W.trace[i];
        if (t->kind == VF_T_SLEEP) o += (size_t)snprintf(out + o, cap - o, " sleep(%u)", t->len);
        else o += (size_t)snprintf(out + o, cap - o, " send(op=0x%02x,len=%u)", t->len >= 18 ? vf_trace_bytes[t->off + 17] : 0xff, t->len);
    }
}

static void generic_checks(void) {
    if (W.led.bad_free) { vf_violation("heap:bad-free", "free of a pointer that is not a live allocation (%u)", W.led.bad_free); W.led.bad_free = 0; }
    int c = vf_check_canaries();
    if (c) { vf_violation("heap:canary", "write past the end of an allocation (%d canaries damaged)", c); W.led.canary_bad = 0; }
    if (W.trace_overflow) vf_harness_error("trace overflow");
}

static void push_state(uint64_t parent, int ev, uint32_t depth, uint64_t h1) {
    if (nS == capS) { capS = capS ? capS * 2 : 4096; S = realloc(S, capS * sizeof *S); if (!S) vf_harness_error("out of memory (states)"); }
    S[nS].parent = (uint32_t)parent; S[nS].ev = ev; S[nS].depth = depth; S[nS].h1 = h1;
    S[nS].snap = take_snap();
    nS++;
}

static void replay_path_to(uint64_t s) {
    int tmp[4096]; int n = 0;
    while (s != 0) { tmp[n++] = S[s].ev; s = S[s].parent; }
    vf_world_reset();
    if (C->root_setup) C->root_setup();
    for (int i = n - 1; i >= 0; i--) { vf_trace_clear(); C->apply(tmp[i]); }
}

void e1_run(const e1_cfg *c, e1_stats *out) {
    C = c; manual_path = NULL;
    double t0 = vf_now_s();
    if (!keybuf) keybuf = malloc(keycap);
    for (uint64_t i = 0; i < nS; i++) free(S[i].snap);
    nS = 0; usedT = 0; if (T) memset(T, 0, capT * sizeof *T);
    e1_outhash_n = 0;
    vf_cex_writer = cex_writer;
    memset(out, 0, sizeof *out);
    out->fixpoint = 1;

    vf_world_reset();
    if (c->root_setup) c->root_setup();
    uint64_t h1, h2; compute_key(&h1, &h2);
    tab_insert(h1, h2);
    cur_state = 0; cur_ev = -1;
    push_state(0, -1, 0, h1);
    if (c->on_new_state) c->on_new_state(0);
    int nsamp_first = 0;

    for (uint64_t si = 0; si < nS; si++) {
        uint32_t depth = S[si].depth;
        if ((int)depth > out->max_depth) out->max_depth = (int)depth;
        if (c->max_depth && (int)depth >= c->max_depth) { out->fixpoint = 0; out->cap = "depth"; free(S[si].snap); S[si].snap = NULL; continue; }
        if (c->max_states && nS >= c->max_states) { out->fixpoint = 0; out->cap = "states"; break; }
        if ((si & 63) == 0) {
            double now = vf_now_s();
            if (c->deadline_s > 0 && now - t0 > c->deadline_s) { out->fixpoint = 0; out->cap = "deadline"; break; }
            if (vf_violation_events && now - vf_first_violation_t > VF_GRACE_AFTER_VIOLATION_S) { out->fixpoint = 0; out->cap = "stopped-after-violation"; break; }
            if ((si & 4095) == 0 && vf_mem_exceeded()) { out->fixpoint = 0; out->cap = "memory"; break; }
        }
        for (int ev = 0; ev < c->nev; ev++) {
            put_snap(S[si].snap);
            if (c->enabled && !c->enabled(ev)) continue;
            cur_state = si; cur_ev = ev;
            vf_trace_clear();
            uint64_t viol0 = vf_violation_events;
            c->apply(ev);
            generic_checks();
            out->transitions++;
            uint64_t th = vf_trace_hash();
            if (c->obs_hash) th ^= c->obs_hash();
            vf_outcome(th);
            out->out_hash = vf_hash64(&th, 8, out->out_hash);
            if (c->compare_outhash) {
                uint64_t idx = out->transitions - 1;
                if (idx >= c->compare_n ? !c->compare_partial : c->compare_outhash[idx] != th)
                    vf_violation("output-depends-on-uninitialised-memory", "transition %llu transmits different bytes (or the state graph differs) when fresh allocations are filled with 0x%02x instead of the first run's pattern", (unsigned long long)idx, W.fill);
            }
            if (c->record_outhash) {
                if (e1_outhash_n == outhash_cap) { outhash_cap = outhash_cap ? outhash_cap * 2 : 65536; e1_outhash = realloc(e1_outhash, outhash_cap * 8); }
                e1_outhash[e1_outhash_n++] = th;
            }
            if (nsamp_first < 3 && W.ntrace > 0) { char d[1400]; describe(d, sizeof d); vf_sample("%s", d); nsamp_first++; }
            if (c->prune_on_violation && vf_violation_events != viol0) { out->pruned++; continue; }
            compute_key(&h1, &h2);
            if (tab_insert(h1, h2)) {
                push_state(si, ev, depth + 1, h1);
                if (c->on_new_state) { cur_state = nS - 1; cur_ev = -1; c->on_new_state((int)depth + 1); }
            }
        }
        free(S[si].snap); S[si].snap = NULL;
    }
    out->states = nS;
    /* deepest sample */
    if (nS > 1) {
        cur_state = S[nS - 1].parent; cur_ev = S[nS - 1].ev;
        vf_suppress = 1; replay_path_to(cur_state); vf_trace_clear(); c->apply(cur_ev); vf_suppress = 0;
        char d[1400]; describe(d, sizeof d); vf_sample("%s", d);
    }
    /* replay self-check: a deterministic subset of states must be reproduced from scratch */
    uint64_t step = nS / 48 + 1;
    vf_suppress = 1;
    for (uint64_t s = step; s < nS; s += step) {
        replay_path_to(s);
        compute_key(&h1, &h2);
        if (h1 != S[s].h1) { vf_suppress = 0; vf_harness_error("replay self-check: state %llu is not reproduced by its history (hidden nondeterminism)", (unsigned long long)s); }
        out->selfcheck_replays++;
    }
    vf_suppress = 0;
    cur_ev = -1; cur_state = 0;
    for (uint64_t i = 0; i < nS; i++) { free(S[i].snap); S[i].snap = NULL; }
}

/* ---------------------------------------------------------------- replay */
static int parse_events(const char *path, int *ev, int cap) {
    FILE *f = fopen(path, "r"); if (!f) vf_harness_error("cannot open %s", path);
    static char buf[1 << 20]; size_t n = fread(buf, 1, sizeof buf - 1, f); buf[n] = 0; fclose(f);
    char *p = strstr(buf, "\"events\":["); if (!p) vf_harness_error("no events in %s", path);
    p += 10; int k = 0;
    while (*p && *p != ']') { if (*p == ',' || *p == ' ') { p++; continue; } if (k < cap) ev[k++] = (int)strtol(p, &p, 10); else break; }
    return k;
}

int e1_replay_file(const e1_cfg *c, const char *path) {
    C = c;
    static int ev[4096]; int n = parse_events(path, ev, 4096);
    uint64_t obs[2] = {0, 0}; int nv[2] = {0, 0};
    for (int round = 0; round < 2; round++) {
        vf_world_reset();
        if (c->root_setup) c->root_setup();
        int before = vf_nviolations();
        for (int i = 0; i < n; i++) {
            char nm[160]; c->ev_name(ev[i], nm, sizeof nm);
            vf_trace_clear();
            if (c->enabled && !c->enabled(ev[i])) { if (round == 0) printf("  [%d] %s (disabled in this state)\n", i, nm); continue; }
            c->apply(ev[i]);
            generic_checks();
            uint64_t th = vf_trace_hash(); obs[round] = vf_hash64(&th, 8, obs[round]);
            if (round == 0) { printf("  [%d] %s\n", i, nm); vf_trace_print(stdout); }
        }
        nv[round] = vf_nviolations() - before;
    }
    printf("replay: %d events, observation hash %016llx / %016llx (%s)\n", n, (unsigned long long)obs[0], (unsigned long long)obs[1], obs[0] == obs[1] ? "identical" : "DIVERGENT");
    if (obs[0] != obs[1]) vf_harness_error("replay diverged between two runs");
    (void)nv;
    return vf_nviolations() > 0 ? 1 : 0;
}
