/* E3: product explorer over K real instances ("worlds", each a full snapshot).
 * An event touches a subset of the worlds; all touched worlds must produce
 * byte-identical port-call traces.  Closure of the set of reachable K-tuples
 * proves trace equivalence for continuations of every length over the alphabet. */
#include "vf.h"
#include "e3.h"

#include <stdlib.h>
#include <string.h>

typedef struct st3 { uint32_t parent; int32_t ev; uint32_t depth; uint32_t seed; vf_snap *snap[E3_MAXW]; } st3;
static st3 *S; static uint64_t nS, capS;
typedef struct slot { uint64_t h1, h2; } slot;
static slot *T; static uint64_t capT, usedT;
static const e3_cfg *C;
static uint64_t cur_state; static int cur_ev = -1;
static uint8_t *keybuf; static const size_t keycap = 1u << 21;
extern int vf_suppress;

static int tab_insert(uint64_t h1, uint64_t h2) {
    if (h1 == 0 && h2 == 0) h2 = 1;
    if ((usedT + 1) * 10 > capT * 7) {
        uint64_t nc = capT ? capT * 2 : (1u << 16);
        slot *nt = calloc(nc, sizeof *nt);
        if (!nt) vf_harness_error("out of memory (visited set)");
        for (uint64_t i = 0; i < capT; i++) if (T[i].h1 || T[i].h2) {
            uint64_t j = T[i].h1 & (nc - 1);
            while (nt[j].h1 || nt[j].h2) j = (j + 1) & (nc - 1);
            nt[j] = T[i];
        }
        free(T); T = nt; capT = nc;
    }
    uint64_t j = h1 & (capT - 1);
    while (T[j].h1 || T[j].h2) { if (T[j].h1 == h1 && T[j].h2 == h2) return 0; j = (j + 1) & (capT - 1); }
    T[j].h1 = h1; T[j].h2 = h2; usedT++;
    return 1;
}

/* seeds */
typedef struct seed { vf_snap *snap[E3_MAXW]; int npre; int *pre; } seed;
static seed *SD; static uint32_t nSD, capSD;

void e3_reset(void) {
    for (uint64_t i = 0; i < nS; i++) for (int k = 0; k < E3_MAXW; k++) free(S[i].snap[k]);
    nS = 0; usedT = 0; if (T) memset(T, 0, capT * sizeof *T);
    for (uint32_t i = 0; i < nSD; i++) { for (int k = 0; k < E3_MAXW; k++) free(SD[i].snap[k]); free(SD[i].pre); }
    nSD = 0;
}

static void tuple_key(vf_snap *const *snap, int K, uint64_t *h1, uint64_t *h2) {
    size_t n = 0;
    for (int k = 0; k < K; k++) {
        vf_restore(snap[k], NULL, 0);
        n += vf_canon(keybuf + n, keycap - n - 16);
        keybuf[n++] = 0x7C; keybuf[n++] = (uint8_t)k;
    }
    *h1 = vf_hash64(keybuf, n, 11); *h2 = vf_hash64(keybuf, n, 0x77aa55);
}

int e3_add_seed(vf_snap *const *snap, const int *prefix, int nprefix) {
    if (!keybuf) keybuf = malloc(keycap);
    uint64_t h1, h2; tuple_key(snap, C->nworlds, &h1, &h2);
    if (!tab_insert(h1, h2)) return 0;
    if (nSD == capSD) { capSD = capSD ? capSD * 2 : 256; SD = realloc(SD, capSD * sizeof *SD); }
    seed *s = &SD[nSD];
    memset(s, 0, sizeof *s);
    for (int k = 0; k < C->nworlds; k++) { s->snap[k] = malloc(sizeof(vf_snap) + snap[k]->size); memcpy(s->snap[k], snap[k], sizeof(vf_snap) + snap[k]->size); }
    s->npre = nprefix; s->pre = malloc(sizeof(int) * (size_t)(nprefix ? nprefix : 1)); memcpy(s->pre, prefix, sizeof(int) * (size_t)nprefix);
    nSD++;
    return 1;
}
void e3_begin(const e3_cfg *c) { C = c; if (!keybuf) keybuf = malloc(keycap); e3_reset(); }
uint32_t e3_nseeds(void) { return nSD; }

static void cex_writer(FILE *f) {
    int tmp[4096]; int n = 0;
    if (cur_ev >= 0) tmp[n++] = cur_ev;
    uint64_t s = cur_state;
    while (S[s].ev >= 0 && n < 4095) { tmp[n++] = S[s].ev; s = S[s].parent; }
    seed *sd = &SD[S[s].seed];
    fprintf(f, "\"prefix\":[");
    for (int i = 0; i < sd->npre; i++) fprintf(f, "%s%d", i ? "," : "", sd->pre[i]);
    fprintf(f, "],\"events\":[");
    for (int i = n - 1; i >= 0; i--) fprintf(f, "%s%d", i == n - 1 ? "" : ",", tmp[i]);
    fprintf(f, "],\"prefix_names\":[");
    for (int i = 0; i < sd->npre; i++) {
        char nm[160]; C->pre_name(sd->pre[i], nm, sizeof nm);
        fprintf(f, "%s\"", i ? "," : ""); for (char *c = nm; *c; c++) if (*c != '"' && *c != '\\') fputc(*c, f); fprintf(f, "\"");
    }
    fprintf(f, "],\"event_names\":[");
    for (int i = n - 1; i >= 0; i--) {
        char nm[160]; C->ev_name(tmp[i], nm, sizeof nm);
        fprintf(f, "%s\"", i == n - 1 ? "" : ","); for (char *c = nm; *c; c++) if (*c != '"' && *c != '\\') fputc(*c, f); fprintf(f, "\"");
    }
    fprintf(f, "]");
}

static uint8_t *ref_bytes; static vf_trec ref_trace[VF_TRACE_MAX]; static uint32_t ref_n, ref_used;

static int traces_equal(char *why, size_t cap) {
    if (ref_n != W.ntrace) { snprintf(why, cap, "%u port calls vs %u", ref_n, W.ntrace); return 0; }
    for (uint32_t i = 0; i < ref_n; i++) {
        const vf_trec *a = &ref_trace[i], *b = &W.trace[i];
        if (a->kind != b->kind || a->len != b->len || (C->same_iface && a->iface != b->iface)) { snprintf(why, cap, "port call %u differs (kind %u/%u len %u/%u iface %u/%u)", i, a->kind, b->kind, a->len, b->len, a->iface, b->iface); return 0; }
        if (a->kind == VF_T_SEND && memcmp(ref_bytes + a->off, vf_trace_bytes + b->off, a->len) != 0) {
            uint32_t k = 0; while (ref_bytes[a->off + k] == vf_trace_bytes[b->off + k]) k++;
            snprintf(why, cap, "frame %u (opcode 0x%02x, %u bytes) differs at byte %u: %02x vs %02x", i, a->len >= 18 ? ref_bytes[a->off + 17] : 0xff, a->len, k, ref_bytes[a->off + k], vf_trace_bytes[b->off + k]);
            return 0;
        }
    }
    return 1;
}

static void push(uint64_t parent, int ev, uint32_t depth, uint32_t seedi, vf_snap **snap) {
    if (nS == capS) { capS = capS ? capS * 2 : 4096; S = realloc(S, capS * sizeof *S); if (!S) vf_harness_error("out of memory"); }
    memset(&S[nS], 0, sizeof S[nS]);
    S[nS].parent = (uint32_t)parent; S[nS].ev = ev; S[nS].depth = depth; S[nS].seed = seedi;
    for (int k = 0; k < C->nworlds; k++) S[nS].snap[k] = snap[k];
    nS++;
}

void e3_run(e3_stats *out) {
    const e3_cfg *c = C;
    double t0 = vf_now_s();
    if (!ref_bytes) ref_bytes = malloc(VF_TRACE_BYTES);
    memset(out, 0, sizeof *out);
    out->fixpoint = 1;
    vf_cex_writer = cex_writer;
    for (uint32_t i = 0; i < nSD; i++) {
        vf_snap *cp[E3_MAXW] = {0};
        for (int k = 0; k < c->nworlds; k++) { cp[k] = malloc(sizeof(vf_snap) + SD[i].snap[k]->size); memcpy(cp[k], SD[i].snap[k], sizeof(vf_snap) + SD[i].snap[k]->size); }
        push(0, -1, 0, i, cp);
    }
    out->seeds = nSD;
    int sampled = 0;
    for (uint64_t si = 0; si < nS; si++) {
        uint32_t depth = S[si].depth;
        if ((int)depth > out->max_depth) out->max_depth = (int)depth;
        if (c->max_depth && (int)depth >= c->max_depth) { out->fixpoint = 0; out->cap = "depth"; goto done_state; }
        if ((si & 15) == 0) {
            double now = vf_now_s();
            if (c->deadline_s > 0 && now - t0 > c->deadline_s) { out->fixpoint = 0; out->cap = "deadline"; break; }
            if (vf_violation_events && now - vf_first_violation_t > VF_GRACE_AFTER_VIOLATION_S) { out->fixpoint = 0; out->cap = "stopped-after-violation"; break; }
            if ((si & 1023) == 0 && vf_mem_exceeded()) { out->fixpoint = 0; out->cap = "memory"; break; }
        }
        for (int ev = 0; ev < c->nev; ev++) {
            vf_snap *ns[E3_MAXW] = {0};
            int first = 1, diverged = 0;
            cur_state = si; cur_ev = ev;
            for (int k = 0; k < c->nworlds; k++) {
                if (!c->touches(ev, k)) { ns[k] = NULL; continue; }
                vf_restore(S[si].snap[k], NULL, 0);
                vf_trace_clear();
                c->apply(ev, k);
                if (W.led.bad_free || vf_check_canaries()) { vf_violation("heap:corruption", "heap damaged in world %d", k); W.led.bad_free = 0; W.led.canary_bad = 0; }
                if (W.trace_overflow) vf_harness_error("trace overflow");
                if (first) {
                    memcpy(ref_trace, W.trace, sizeof(vf_trec) * W.ntrace); ref_n = W.ntrace; ref_used = W.trace_used;
                    memcpy(ref_bytes, vf_trace_bytes, W.trace_used);
                    uint64_t th = vf_trace_hash(); vf_outcome(th);
                    first = 0;
                } else {
                    char why[200];
                    if (!traces_equal(why, sizeof why)) {
                        diverged = 1;
                        char nm[160]; c->ev_name(ev, nm, sizeof nm);
                        char sig[200]; snprintf(sig, sizeof sig, "%s:%s", c->sig_prefix, c->sig_of ? c->sig_of(ev) : "event");
                        vf_violation(sig, "the same event %s yields different transmissions in world %d than in the reference world: %s", nm, k, why);
                    }
                }
                if (c->after_apply) c->after_apply(ev, k);
                ns[k] = vf_snapshot(NULL, 0);
                out->executions++;
            }
            out->transitions++;
            if (!sampled && ref_n > 0) { char nm[160]; c->ev_name(ev, nm, sizeof nm); vf_sample("seed %u ; %s => %u port calls, identical in all touched worlds", S[si].seed, nm, ref_n); sampled = 1; }
            for (int k = 0; k < c->nworlds; k++) if (!ns[k]) { ns[k] = malloc(sizeof(vf_snap) + S[si].snap[k]->size); memcpy(ns[k], S[si].snap[k], sizeof(vf_snap) + S[si].snap[k]->size); }
            uint64_t h1, h2; tuple_key(ns, c->nworlds, &h1, &h2);
            if (!diverged && tab_insert(h1, h2)) push(si, ev, depth + 1, S[si].seed, ns);
            else for (int k = 0; k < c->nworlds; k++) free(ns[k]);
        }
done_state:
        for (int k = 0; k < c->nworlds; k++) { free(S[si].snap[k]); S[si].snap[k] = NULL; }
    }
    out->states = nS;
    cur_ev = -1;
}

/* ---------------------------------------------------------------- replay */
static int parse_list(const char *buf, const char *key, int *ev, int cap) {
    const char *p = strstr(buf, key); if (!p) return 0;
    p += strlen(key); int k = 0;
    while (*p && *p != ']') { if (*p == ',' || *p == ' ') { p++; continue; } char *e; long v = strtol(p, &e, 10); if (e == p) break; if (k < cap) ev[k++] = (int)v; p = e; }
    return k;
}

int e3_replay_file(const e3_cfg *c, const char *path) {
    C = c;
    if (!keybuf) keybuf = malloc(keycap);
    if (!ref_bytes) ref_bytes = malloc(VF_TRACE_BYTES);
    FILE *f = fopen(path, "r"); if (!f) vf_harness_error("cannot open %s", path);
    static char buf[1 << 20]; size_t n = fread(buf, 1, sizeof buf - 1, f); buf[n] = 0; fclose(f);
    static int pre[4096], ev[4096];
    int npre = parse_list(buf, "\"prefix\":[", pre, 4096), nev = parse_list(buf, "\"events\":[", ev, 4096);
    uint64_t obs[2] = {0, 0};
    for (int round = 0; round < 2; round++) {
        vf_snap *snap[E3_MAXW] = {0};
        c->seed_from_prefix(pre, npre, snap);
        if (round == 0) {
            printf("  seed prefix (%d events):", npre);
            for (int i = 0; i < npre; i++) { char nm[160]; c->pre_name(pre[i], nm, sizeof nm); printf(" %s ;", nm); }
            printf("\n");
        }
        for (int i = 0; i < nev; i++) {
            char nm[160]; c->ev_name(ev[i], nm, sizeof nm);
            int first = 1;
            for (int k = 0; k < c->nworlds; k++) {
                if (!c->touches(ev[i], k)) continue;
                vf_restore(snap[k], NULL, 0);
                vf_trace_clear();
                c->apply(ev[i], k);
                uint64_t th = vf_trace_hash(); obs[round] = vf_hash64(&th, 8, obs[round] + (uint64_t)k);
                if (round == 0) { printf("  [%d] world %d: %s\n", i, k, nm); vf_trace_print(stdout); }
                if (first) {
                    memcpy(ref_trace, W.trace, sizeof(vf_trec) * W.ntrace); ref_n = W.ntrace; memcpy(ref_bytes, vf_trace_bytes, W.trace_used); first = 0;
                } else {
                    char why[200];
                    if (!traces_equal(why, sizeof why)) {
                        char sig[200]; snprintf(sig, sizeof sig, "%s:%s", c->sig_prefix, c->sig_of ? c->sig_of(ev[i]) : "event");
                        vf_violation(sig, "event %s: world %d differs from the reference world: %s", nm, k, why);
                    }
                }
                if (c->after_apply) c->after_apply(ev[i], k);
                free(snap[k]); snap[k] = vf_snapshot(NULL, 0);
            }
        }
        for (int k = 0; k < c->nworlds; k++) free(snap[k]);
    }
    printf("replay: %d+%d events, observation hash %016llx / %016llx (%s)\n", npre, nev, (unsigned long long)obs[0], (unsigned long long)obs[1], obs[0] == obs[1] ? "identical" : "DIVERGENT");
    if (obs[0] != obs[1]) vf_harness_error("replay diverged between two runs");
    return vf_nviolations() > 0 ? 1 : 0;
}
