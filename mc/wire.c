/* Independent frame builders and wire decoder.  Offsets are taken from MS-LLTD
 * as restated in properties C02/C03/C04/C07/C08; this file deliberately does
 * not include any header of the code under test. */
#include "vf.h"

#include <string.h>

static void put16(uint8_t *p, uint16_t v) { p[0] = (uint8_t)(v >> 8); p[1] = (uint8_t)v; }
static uint16_t get16(const uint8_t *p) { return (uint16_t)((p[0] << 8) | p[1]); }

size_t fb_base(uint8_t *b, const uint8_t *ethdst, const uint8_t *ethsrc, uint8_t tos, uint8_t opcode,
               const uint8_t *realdst, const uint8_t *realsrc, uint16_t seq) {
    memcpy(b, ethdst, 6); memcpy(b + 6, ethsrc, 6);
    b[12] = 0x88; b[13] = 0xD9;
    b[14] = 1; b[15] = tos; b[16] = 0; b[17] = opcode;
    memcpy(b + 18, realdst, 6); memcpy(b + 24, realsrc, 6);
    put16(b + 30, seq);
    return 32;
}

size_t fb_discover(uint8_t *b, const uint8_t *ethsrc, const uint8_t *realsrc, uint8_t tos, uint16_t seq,
                   uint16_t gen, uint16_t nsta, const uint8_t (*sta)[6]) {
    static const uint8_t bc[6] = {0xff, 0xff, 0xff, 0xff, 0xff, 0xff};
    fb_base(b, bc, ethsrc, tos, 0x00, bc, realsrc, seq);
    put16(b + 32, gen); put16(b + 34, nsta);
    for (unsigned i = 0; i < nsta && sta; i++) memcpy(b + 36 + 6 * i, sta[i], 6);
    return 36 + (sta ? 6u * nsta : 0u);
}

size_t fb_hello(uint8_t *b, const uint8_t *src, uint8_t tos, uint16_t gen, const uint8_t *curmap,
                const uint8_t *appmap) {
    static const uint8_t bc[6] = {0xff, 0xff, 0xff, 0xff, 0xff, 0xff};
    fb_base(b, bc, src, tos, 0x01, bc, src, 0);
    put16(b + 32, gen); memcpy(b + 34, curmap, 6); memcpy(b + 40, appmap, 6);
    /* minimal property list: host id, end */
    b[46] = 0x01; b[47] = 6; memcpy(b + 48, src, 6); b[54] = 0;
    return 55;
}

size_t fb_emit(uint8_t *b, const uint8_t *ethdst, const uint8_t *ethsrc, const uint8_t *realdst,
               const uint8_t *realsrc, uint8_t tos, uint16_t seq, uint16_t declared, const fb_desc *d, int nd) {
    fb_base(b, ethdst, ethsrc, tos, 0x02, realdst, realsrc, seq);
    put16(b + 32, declared);
    for (int i = 0; i < nd; i++) {
        uint8_t *p = b + 34 + 14 * i;
        p[0] = d[i].type; p[1] = d[i].pause; memcpy(p + 2, d[i].src, 6); memcpy(p + 8, d[i].dst, 6);
    }
    return 34 + 14u * (unsigned)nd;
}

size_t fb_qlt(uint8_t *b, const uint8_t *ethdst, const uint8_t *ethsrc, const uint8_t *realdst,
              const uint8_t *realsrc, uint8_t tos, uint16_t seq, uint8_t type, uint16_t off) {
    fb_base(b, ethdst, ethsrc, tos, 0x0B, realdst, realsrc, seq);
    b[32] = type; b[33] = 0; put16(b + 34, off);
    return 36;
}

/* ---------------------------------------------------------------- decoder */
int wd_decode(const uint8_t *b, size_t len, wd_frame *f) {
    memset(f, 0, sizeof *f);
    f->b = b; f->len = len;
    if (len < 32) return -1;
    memcpy(f->ethdst, b, 6); memcpy(f->ethsrc, b + 6, 6);
    f->ethertype = get16(b + 12);
    f->version = b[14]; f->tos = b[15]; f->reserved = b[16]; f->opcode = b[17];
    memcpy(f->realdst, b + 18, 6); memcpy(f->realsrc, b + 24, 6);
    f->seq = get16(b + 30);
    if (f->opcode == 0x01 && len >= 46) {
        f->gen = get16(b + 32); memcpy(f->curmap, b + 34, 6); memcpy(f->appmap, b + 40, 6);
        size_t o = 46;
        f->tlv_end_ok = 0;
        while (o < len) {
            if (b[o] == 0x00) { f->tlv_end_ok = 1; f->tlv_end_off = o; break; }
            if (o + 2 > len) break;
            uint8_t t = b[o], l = b[o + 1];
            if (o + 2 + l > len) break;
            if (f->ntlv < 64) { f->tlv[f->ntlv].type = t; f->tlv[f->ntlv].len = l; f->tlv[f->ntlv].off = (uint16_t)(o + 2); f->ntlv++; }
            o += 2u + l;
        }
    }
    if ((f->opcode == 0x07 || f->opcode == 0x0C) && len >= 34) f->count_raw = get16(b + 32);
    return 0;
}

const wd_tlv *wd_find_tlv(const wd_frame *f, uint8_t type) {
    for (int i = 0; i < f->ntlv; i++) if (f->tlv[i].type == type) return &f->tlv[i];
    return NULL;
}

/* legal length of a Hello property: returns 1 if legal, 0 if illegal, -1 if the type is not an LLTD property */
static int tlv_len_legal(uint8_t t, uint8_t l) {
    switch (t) {
        case 0x01: return l == 6;           /* host id */
        case 0x02: return l == 4;           /* characteristics */
        case 0x03: return l == 4;           /* physical medium */
        case 0x04: return l == 1;           /* wireless mode */
        case 0x05: return l == 6;           /* BSSID */
        case 0x06: return l <= 32;          /* SSID */
        case 0x07: return l == 4;           /* IPv4 */
        case 0x08: return l == 16;          /* IPv6 */
        case 0x09: return l == 2;           /* max rate */
        case 0x0A: return l == 8;           /* perf counter frequency */
        case 0x0C: return l == 4;           /* link speed */
        case 0x0D: return l == 4;           /* RSSI */
        case 0x0E: return l == 0;           /* icon (large, fetched separately) */
        case 0x0F: return l <= 32;          /* machine name */
        case 0x10: return l <= 64;          /* support URL */
        case 0x11: return l == 0;           /* friendly name (large) */
        case 0x12: return l == 16;          /* UUID */
        case 0x13: return l <= 64;          /* hardware id */
        case 0x14: return l == 4;           /* QoS characteristics */
        case 0x15: return l == 1;           /* 802.11 physical medium */
        case 0x16: return l == 0;           /* AP association table */
        case 0x18: return l == 0;           /* detailed icon */
        case 0x19: return l == 2;           /* sees-list working set */
        case 0x1A: return l == 0;           /* component table */
        case 0x1B: return l <= 36 && l % 6 == 0;  /* repeater AP lineage */
        case 0x1C: return l == 0;           /* repeater AP table */
        default: return -1;
    }
}

const char *wd_wellformed(const wd_frame *f, const uint8_t *own, size_t mtu) {
    if (f->len < 32) return "shorter-than-base-header";
    if (f->len > mtu) return "longer-than-mtu";
    if (f->ethertype != 0x88D9) return "ethertype";
    if (f->version != 1) return "version";
    if (f->reserved != 0) return "reserved-nonzero";
    if (memcmp(f->realsrc, own, 6) != 0) return "real-source-not-own";
    switch (f->opcode) {
        case 0x04: case 0x03: case 0x05:
            if (f->len != 32) return "probe-train-ack-length";
            return NULL;
        case 0x07: {
            if (f->len < 34) return "queryresp-short";
            if (f->count_raw & 0x4000) return "queryresp-reserved-bit";
            if (f->len != 34u + 20u * (f->count_raw & 0x3FFFu)) return "queryresp-length-vs-count";
            return NULL;
        }
        case 0x0C: {
            if (f->len < 34) return "qltresp-short";
            if (f->count_raw & 0x4000) return "qltresp-reserved-bit";
            if (f->len != 34u + (f->count_raw & 0x3FFFu)) return "qltresp-length-vs-field";
            return NULL;
        }
        case 0x01: {
            if (f->len < 47) return "hello-short";
            if (!f->tlv_end_ok) return "hello-no-end-marker";
            if (f->tlv_end_off != f->len - 1) return "hello-end-marker-not-last";
            if (f->ntlv < 1 || f->tlv[0].type != 0x01) return "hello-hostid-not-first";
            for (int i = 0; i < f->ntlv; i++) {
                int l = tlv_len_legal(f->tlv[i].type, f->tlv[i].len);
                if (l < 0) return "hello-unknown-property-type";
                if (l == 0) return "hello-illegal-property-length";
                for (int j = 0; j < i; j++) if (f->tlv[j].type == f->tlv[i].type) return "hello-duplicate-property";
            }
            return NULL;
        }
        default: return "opcode-not-a-responder-opcode";
    }
}
