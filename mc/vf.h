/* Verification framework: closed world, port implementation, explorer, reporting.
 * Shared by every check.  See DESIGN.md section 2. */
#ifndef VF_H
#define VF_H

#include <stdbool.h>
#include <stddef.h>
#include <stdint.h>
#include <stdio.h>

/* ------------------------------------------------------------------ world */

#define VF_NIFACE      4
#define VF_ARENA_SIZE  (1u << 22)
#define VF_MAXMTU      9216
#define VF_TRACE_MAX   4096           /* port-call records per transition   */
#define VF_TRACE_BYTES (1u << 20)     /* transmitted bytes per transition   */

/* one interface's attribute record (what the platform getters answer) */
typedef struct vf_iface {
    int      id;
    uint8_t  mac[6];
    uint32_t flags;
    uint32_t iftype;
    uint32_t ipv4_be;
    uint8_t  ipv6[16];
    uint32_t speed;
    size_t   mtu;
    int      wifi;            /* wifi-mode getter succeeds */
    uint8_t  wifi_mode;
    uint8_t  bssid[6];
    uint8_t  ssid[64];
    size_t   ssid_len;
    int      ssid_ret_full;   /* return untruncated length instead of written */
    uint16_t rate;
    int8_t   rssi;
    uint32_t phy;
    /* per-getter failure switches (bit set = getter fails) */
    uint32_t fail;
    /* the daemon's receive buffer for this interface */
    uint8_t *recv;
    size_t   recv_prev_len;
} vf_iface;

enum {
    VF_G_MAC = 1u << 0, VF_G_IFTYPE = 1u << 1, VF_G_IPV4 = 1u << 2, VF_G_IPV6 = 1u << 3,
    VF_G_SPEED = 1u << 4, VF_G_MTU = 1u << 5, VF_G_BSSID = 1u << 6, VF_G_SSID = 1u << 7,
    VF_G_RATE = 1u << 8, VF_G_RSSI = 1u << 9, VF_G_HOSTNAME = 1u << 10, VF_G_WIFIMODE = 1u << 11,
    VF_G_ICON = 1u << 12, VF_G_FNAME = 1u << 13, VF_G_HWID = 1u << 14, VF_G_FLAGS = 1u << 15,
};

typedef struct vf_host {
    uint8_t  hostname[64];
    size_t   hostname_len;
    int      hostname_ret_full;
    const uint8_t *icon;   size_t icon_size;   int icon_ok;
    const uint8_t *fname;  size_t fname_size;  int fname_ok;
    uint8_t  hwid[80];     size_t hwid_len;    /* bytes written by the getter (<= dst_len) */
    uint32_t fail;                             /* VF_G_HOSTNAME, VF_G_ICON ... */
} vf_host;

/* trace of port calls made during one transition */
enum { VF_T_SEND = 1, VF_T_SLEEP = 2 };
typedef struct vf_trec {
    uint8_t  kind;
    uint8_t  iface;
    int8_t   result;
    uint32_t len;       /* frame length or sleep ms */
    uint32_t off;       /* offset of the bytes in trace_bytes */
    uint64_t t_ms;
} vf_trec;

/* fault plan: every fallible port call is a numbered choice point */
enum { VF_F_MALLOC = 0, VF_F_SEND, VF_F_MTU, VF_F_MAC, VF_F_ICON, VF_F_FNAME, VF_F_HWID,
       VF_F_HOSTNAME, VF_F_GETTER, VF_F_NKINDS };
#define VF_FP_MAXPOINTS 8192
typedef struct vf_faultplan {
    int      active;
    uint32_t npoints;                    /* fallible calls seen in this execution */
    uint8_t  kind[VF_FP_MAXPOINTS];
    int      ndev;                       /* deviations requested */
    uint32_t dev[8];                     /* choice point numbers that fail */
    int      sticky_kind;                /* -1 none; else every call of that kind ... */
    uint32_t sticky_from;                /* ... from its k-th occurrence on fails     */
    int      one_kind; uint32_t one_n;    /* -1 none; else exactly the n-th call of that kind fails */
    uint32_t kind_count[VF_F_NKINDS];
    uint32_t took_effect;                /* injected failures that really happened */
} vf_faultplan;

typedef struct vf_ledger {
    uint32_t live_blocks;
    uint64_t live_bytes;
    uint32_t hw_blocks;
    uint64_t hw_bytes;
    uint64_t allocs, frees;
    uint32_t bad_free;        /* free of a non-live / foreign pointer */
    uint32_t canary_bad;
} vf_ledger;

typedef struct vf_world {
    /* configuration (constant during one search) */
    vf_iface  iface[VF_NIFACE];
    vf_host   host;
    uint8_t   fill;           /* byte pattern of freshly allocated memory */
    /* dynamic */
    struct { uint32_t icon_epoch; uint32_t mtu_alt; } env;      /* mtu_alt: the interfaces' MTU was changed at run time (1500 <-> 9216, others -> 1500) */   /* platform state the environment may change (part of every snapshot and key) */
    uint64_t  now_ms;
    vf_ledger led;
    vf_faultplan fp;
    /* per-transition scratch */
    uint32_t  ntrace;
    uint32_t  trace_used;
    vf_trec   trace[VF_TRACE_MAX];
    uint32_t  trace_overflow;
    uint32_t  sends_total;     /* send calls in this transition, counted even when the trace is full */
    uint32_t  cur_request;
    int       in_tick;        /* set by drivers while automata_tick runs */
} vf_world;

extern vf_world W;
extern uint8_t  vf_trace_bytes[VF_TRACE_BYTES];

void   vf_world_init(size_t mtu, int wifi, uint8_t fill);   /* config + reset */
int    vf_mem_exceeded(void);           /* resident set above the per-process budget (VF_MEMLIM_MB) */
void   vf_rich_platform(void);          /* maximal-length string attributes (hardware ID, machine name, SSIDs) */
void   vf_world_reset(void);            /* pristine process image: core globals, heap, clock */
void   vf_trace_clear(void);
void  *vf_ctx(int iface);               /* iface_ctx pointer handed to the core */
int    vf_ctx_index(const void *ctx);

/* snapshot of everything dynamic (plain flavour only) */
typedef struct vf_snap { uint32_t size; uint8_t data[]; } vf_snap;
vf_snap *vf_snapshot(const void *model, size_t model_size);
void     vf_restore(const vf_snap *s, void *model, size_t model_size);
size_t   vf_canon(uint8_t *out, size_t cap);   /* canonical heap-graph serialisation */
int      vf_check_canaries(void);              /* 0 ok */
uint32_t vf_live_blocks(void);
uint64_t vf_live_bytes(void);
/* iterate live blocks (for ledger monitors) */
typedef void (*vf_block_cb)(void *payload, size_t size, uint32_t serial, void *arg);
void     vf_each_live(vf_block_cb cb, void *arg);
uint32_t vf_alloc_serial(void);
void     vf_arena_range(uintptr_t *lo, uintptr_t *hi);
void     vf_core_sections(uintptr_t *blo, uintptr_t *bhi, uintptr_t *dlo, uintptr_t *dhi);
size_t   vf_core_size(void); void vf_core_save(uint8_t *out); void vf_core_load(const uint8_t *in);   /* the core's own writable sections */
extern void (*vf_on_free)(void *p, size_t size);
extern void (*vf_on_alloc)(void *p, size_t size);
extern int vf_cur_iface;         /* serial the next allocation will get */

/* --------------------------------------------------------------- stations */
enum { ST_OWN = 0, ST_OWN2, ST_M1, ST_M2, ST_M3, ST_BR, ST_S0, ST_S1, ST_PEER, ST_BC, ST_ZERO, ST_SIB /* the address of another interface of this responder */, ST_N };
extern uint8_t vf_station[64][6];
const char *vf_station_name(int s);

/* ----------------------------------------------------- frames (independent) */
size_t fb_base(uint8_t *b, const uint8_t *ethdst, const uint8_t *ethsrc, uint8_t tos, uint8_t opcode,
               const uint8_t *realdst, const uint8_t *realsrc, uint16_t seq);
size_t fb_discover(uint8_t *b, const uint8_t *ethsrc, const uint8_t *realsrc, uint8_t tos, uint16_t seq,
                   uint16_t gen, uint16_t nsta, const uint8_t (*sta)[6]);
size_t fb_hello(uint8_t *b, const uint8_t *src, uint8_t tos, uint16_t gen, const uint8_t *curmap,
                const uint8_t *appmap);
typedef struct fb_desc { uint8_t type, pause; uint8_t src[6], dst[6]; } fb_desc;
size_t fb_emit(uint8_t *b, const uint8_t *ethdst, const uint8_t *ethsrc, const uint8_t *realdst,
               const uint8_t *realsrc, uint8_t tos, uint16_t seq, uint16_t declared, const fb_desc *d, int nd);
size_t fb_qlt(uint8_t *b, const uint8_t *ethdst, const uint8_t *ethsrc, const uint8_t *realdst,
              const uint8_t *realsrc, uint8_t tos, uint16_t seq, uint8_t type, uint16_t off);

/* -------------------------------------------------- independent wire decoder */
typedef struct wd_tlv { uint8_t type, len; uint16_t off; } wd_tlv;
typedef struct wd_frame {
    size_t   len;
    const uint8_t *b;
    uint8_t  ethdst[6], ethsrc[6];
    uint16_t ethertype;
    uint8_t  version, tos, reserved, opcode;
    uint8_t  realdst[6], realsrc[6];
    uint16_t seq;
    /* hello */
    uint16_t gen; uint8_t curmap[6], appmap[6];
    int      ntlv; wd_tlv tlv[64]; int tlv_end_ok; size_t tlv_end_off;
    /* queryresp / qltresp */
    uint16_t count_raw;
} wd_frame;
int  wd_decode(const uint8_t *b, size_t len, wd_frame *f);          /* 0 if base header present */
/* structural well-formedness per C02; returns NULL if fine, else a static reason string */
const char *wd_wellformed(const wd_frame *f, const uint8_t *own_mac, size_t mtu);
const wd_tlv *wd_find_tlv(const wd_frame *f, uint8_t type);

/* ------------------------------------------------------------- reporting */
void vf_violation(const char *sig, const char *fmt, ...) __attribute__((format(printf, 2, 3)));
void vf_harness_error(const char *fmt, ...) __attribute__((format(printf, 1, 2), noreturn));
typedef struct vf_path { int n; int ev[4096]; } vf_path;
extern void (*vf_cex_writer)(FILE *f);     /* set by the engine: writes "events":[...] etc. */
int  vf_nviolations(void);
extern uint64_t vf_violation_events; extern double vf_first_violation_t; extern int vf_suppress;
#define VF_GRACE_AFTER_VIOLATION_S 15.0   /* engines stop this long after the first violation (reported as a cap) */
void vf_outcome(uint64_t h);               /* register a distinct observed outcome */
uint64_t vf_hash64(const void *p, size_t n, uint64_t seed);

/* results file */
typedef struct vf_results {
    const char *property;
    const char *out_path;
    const char *cex_dir;
    const char *config;                /* JSON object text describing the configuration */
    uint64_t states, transitions, evaluations;
    int max_depth; int fixpoint; int exhaustive; const char *cap_hit;
    double wall_s;
} vf_results;
extern vf_results R;
void vf_sample(const char *fmt, ...) __attribute__((format(printf, 1, 2)));   /* add a sample line */
void vf_extra(const char *key, const char *fmt, ...) __attribute__((format(printf, 2, 3)));
void vf_write_results(void);
double vf_now_s(void);

/* ---------------------------------------------------------------- args */
typedef struct vf_args {
    size_t mtu; int wifi; unsigned fill; const char *tier; const char *out; const char *cexdir;
    const char *replay; int part, nparts; const char *mode; long depth; double deadline; int verbose;
    long a, b;
} vf_args;
extern vf_args A;
void vf_parse_args(int argc, char **argv, const char *property);
int  vf_thorough(void);

/* ------------------------------------------------------------ explorer E1 */
typedef struct e1_cfg {
    int    nev;
    void (*ev_name)(int ev, char *buf, size_t cap);
    int  (*enabled)(int ev);               /* may be NULL */
    void (*apply)(int ev);                 /* run the real code + oracles */
    void  *model; size_t model_size;       /* reference-model state: part of key and snapshot */
    size_t state_size;                     /* if non-zero: compact custom state instead of world snapshots (no allocation may happen in apply) */
    void (*save)(uint8_t *buf); void (*restore)(const uint8_t *buf);
    size_t (*extra_key)(uint8_t *out, size_t cap);   /* optional addition to the key */
    int    no_heap_key, no_model_key;      /* timed engines: the key is extra_key() alone (time-abstracted) */
    uint64_t (*obs_hash)(void);            /* observation of a transition when it makes no port calls */
    void (*on_new_state)(int depth);       /* optional per-state invariant */
    void (*root_setup)(void);              /* optional: bring the reset world to the start state */
    int    max_depth;                      /* 0 = unbounded */
    uint64_t max_states;
    double deadline_s;
    int    prune_on_violation;             /* do not expand the successor of a violating transition */
    int    record_outhash;                 /* keep per-transition output hashes */
    const uint64_t *compare_outhash; uint64_t compare_n;   /* second run: outputs must equal the first run's */
    int compare_partial;                                   /* the first run was cut short (deadline / memory): transitions beyond its last one are not compared */
} e1_cfg;
typedef struct e1_stats {
    uint64_t states, transitions; int max_depth; int fixpoint; const char *cap;
    uint64_t out_hash; uint64_t selfcheck_replays; uint64_t pruned;
} e1_stats;
void e1_run(const e1_cfg *c, e1_stats *st);
int  e1_replay_file(const e1_cfg *c, const char *path);   /* replays twice, prints observations */
void e1_current_path(vf_path *p);
void e1_manual_path(const e1_cfg *c, const int *ev, int n);   /* stateless engines: path for counterexample files */
extern uint64_t *e1_outhash; extern uint64_t e1_outhash_n;
uint64_t vf_trace_hash(void);       /* hash of this transition's port-call log */
void     vf_trace_print(FILE *f);

#endif
