/* Harness-side transcription of the Darwin daemon's per-interface glue
 * (os/darwin/daemon/darwin-main.c:262-404 and Documentation/automata_runtime.md).
 * darwin-main.c cannot be compiled in this sandbox; this file is trusted base and is kept
 * line-for-line traceable to it. */
#ifndef DARWIN_H
#define DARWIN_H
#include "vf.h"
#include "lltdAutomata.h"

typedef struct dw_iface {
    automata *mappingAutomata, *sessionAutomata, *enumerationAutomata;
    session_table *sessionTable;
    uint64_t LastHelloTxMs;
    uint8_t  macAddress[6];
    int      iface;              /* index of the verification-port interface */
    int      call_parse_frame;   /* also run parseFrame (C01 flavour) */
    int      defer_tick;         /* dw_frame leaves the closing tick (line 396) to the caller */
    int      mapping_only;       /* C14: skip the session-automaton / enumeration lines (365-391), tick without enumeration */
    /* observation of the periodic Hello */
    uint32_t hello_calls; uint64_t last_hello_call_ms; uint32_t hello_outside_tick;
} dw_iface;

void dw_init(dw_iface *d, int iface);               /* deviceAppeared(): the four constructors */
void dw_frame(dw_iface *d, void *recvBuffer, size_t recvLen);   /* lltdLoop body for one received frame of recvLen bytes (lines 289-404) */
void dw_tick(dw_iface *d);                          /* select() timeout branch (lines 271-280) */
extern void (*dw_on_hello)(dw_iface *d);            /* monitor hook, called from inside send_hello */
#endif
