#include "darwin.h"

#include <string.h>

#include "lltdBlock.h"
#include "lltdEndian.h"

void (*dw_on_hello)(dw_iface *d);

static void sendHelloMessage(void *networkInterface) {
    dw_iface *d = networkInterface;
    d->hello_calls++;
    if (!W.in_tick) d->hello_outside_tick++;
    if (dw_on_hello) dw_on_hello(d);
    d->last_hello_call_ms = W.now_ms;
}

void dw_init(dw_iface *d, int iface) {
    memset(d, 0, sizeof *d);
    d->iface = iface;
    memcpy(d->macAddress, W.iface[iface].mac, 6);
    d->mappingAutomata = init_automata_mapping();
    d->sessionAutomata = init_automata_session();
    d->enumerationAutomata = init_automata_enumeration();
    d->sessionTable = session_table_create();
}

void dw_tick(dw_iface *d) {
    /* darwin-main.c:271-280 */
    lltd_automata_tick_port tick_port = {
        .network_interface = d,
        .last_hello_tx_ms = &d->LastHelloTxMs,
        .send_hello = sendHelloMessage,
    };
    W.in_tick = 1;
    automata_tick(d->mappingAutomata, d->mapping_only ? NULL : d->enumerationAutomata, d->sessionTable, &tick_port);
    W.in_tick = 0;
}

void dw_frame(dw_iface *d, void *recvBuffer, size_t recvLen) {
    lltd_demultiplex_header_t *header = recvBuffer;

    /* :292 Derive session event from the received frame */
    int sess_event = derive_session_event_len(recvBuffer, recvLen, d->sessionTable, d->macAddress);

    /* :297 Update session table based on received frame */
    if (header->opcode == opcode_discover) {
        lltd_discover_upper_header_t *disc_header = (lltd_discover_upper_header_t *)(header + 1);
        uint16_t generation = lltd_ntohs(disc_header->generation);
        session_entry *entry = session_table_add(d->sessionTable, header->realSource.a, generation, lltd_ntohs(header->seqNumber));
        if (entry) {
            entry->state = (uint8_t)sess_event;
            entry->last_activity_ts = lltd_monotonic_seconds();
            if (sess_event == sess_discover_acking || sess_event == sess_discover_acking_chgd_xid) {
                entry->complete = true;
            }
        }
        session_table_update_complete_status(d->sessionTable);
    } else if (header->opcode == opcode_reset) {
        /* :338 Clear session table on reset */
        session_table_clear(d->sessionTable);
    }

    /* :343 Update mapping automaton with opcode */
    uint8_t prev_mapping_state = d->mappingAutomata->current_state;
    switch_state_mapping(d->mappingAutomata, header->opcode, "rx");
    /* :349 */
    if (prev_mapping_state != 0 && d->mappingAutomata->current_state == 0) {
        session_table_clear(d->sessionTable);
    }
    /* :355 Reset inactive timeout on any valid frame */
    if (d->mappingAutomata->extra) {
        mapping_reset_inactive_timeout((mapping_state *)d->mappingAutomata->extra);
    }
    /* :360 */
    if (header->opcode == opcode_charge && d->mappingAutomata->extra) {
        mapping_on_charge((mapping_state *)d->mappingAutomata->extra);
    }
    if (d->mapping_only) goto parse;
    /* :365 */
    if (sess_event >= 0) {
        switch_state_session(d->sessionAutomata, sess_event, "rx");
    }
    /* :370 */
    if (header->opcode == opcode_hello) {
        if (d->enumerationAutomata->extra) {
            band_on_hello_received((band_state *)d->enumerationAutomata->extra);
        }
        switch_state_enumeration(d->enumerationAutomata, enum_hello, "rx");
    } else if (header->opcode == opcode_discover) {
        if (d->enumerationAutomata->current_state == 0) {
            if (d->enumerationAutomata->extra) {
                band_init_stats((band_state *)d->enumerationAutomata->extra);
                band_choose_hello_time((band_state *)d->enumerationAutomata->extra);
            }
        } else if (d->enumerationAutomata->extra) {
            ((band_state *)d->enumerationAutomata->extra)->begun = true;
        }
        switch_state_enumeration(d->enumerationAutomata, enum_new_session, "rx");
    }

parse:
    /* :393 Parse and handle the frame */
    if (d->call_parse_frame) parseFrame(recvBuffer, vf_ctx(d->iface));

    /* :396 Run periodic automata tick after handling frame */
    if (!d->defer_tick) dw_tick(d);
}
