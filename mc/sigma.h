/* Protocol event descriptors (frames as a mapper / peer would send them) and
 * the receive drivers that hand them to the code under test the way the
 * daemons do. */
#ifndef SIGMA_H
#define SIGMA_H
#include "vf.h"

typedef struct pev {
    uint8_t  opcode, tos;
    uint8_t  realsrc, ethsrc;      /* station index; ST_OWN = the receiving interface's address */
    uint8_t  realdst, ethdst;
    uint16_t seq, gen;
    uint16_t nsta; int8_t own_pos;  /* Discover station list: count, position of own address (-1 absent) */
    uint8_t  nd; struct { uint8_t type, pause, src, dst; } d[4];
    uint16_t declared; uint8_t declared_set;
    uint8_t  ltype; uint16_t loff;
    uint16_t pad_to;               /* minimum frame length (zero padded) */
} pev;

const uint8_t *pev_addr(int station, int iface);
size_t pev_build(const pev *e, int iface, uint8_t *buf);
void   pev_name(const pev *e, char *out, size_t cap);
/* Linux daemons: recvfrom into the persistent buffer, then parseFrame(buffer, iface) */
void   drv_linux_deliver(int iface, const uint8_t *frame, size_t len);
void   drv_linux(const pev *e, int iface);

/* convenience constructors */
pev ev_discover(uint8_t tos, int realsrc, int ethsrc, uint16_t gen, uint16_t seq);
pev ev_reset(uint8_t tos, int src);
pev ev_hello(uint8_t tos, int src, uint16_t gen);
pev ev_probe(uint8_t opcode, uint8_t tos, int realsrc, int ethsrc, int realdst, int ethdst);
pev ev_query(uint8_t tos, int realsrc, int ethsrc, uint16_t seq);
pev ev_qlt(uint8_t tos, int realsrc, int ethsrc, uint16_t seq, uint8_t type, uint16_t off);
pev ev_emit1(uint8_t tos, int realsrc, int ethsrc, uint16_t seq, uint8_t type, uint8_t pause, int src, int dst);
pev ev_raw(uint8_t tos, uint8_t opcode, int realsrc, int ethsrc);
/* protocol alphabets: SIGMA_P (C02/C09/C18), SIGMA_DISC (C03, Discover family widened), SIGMA_SMALL (quick product runs) */
enum { SIGMA_P = 0, SIGMA_DISC = 1, SIGMA_SMALL = 2 };
int sigma_build(pev *out, int cap, int variant);
#endif
