/* E6 substrate: the core is compiled with -fsanitize=thread but linked against THESE functions
 * instead of the ThreadSanitizer runtime.  Every memory access the compiler could not prove
 * thread-local therefore calls into the harness first: a scheduling point (if the address is shared:
 * the core's writable sections or the port's arena) and a race-detector event.
 * Threads are ucontext coroutines; the scheduler follows a preemption set given by the explorer. */
#include "tsan_hooks.h"

#include <stdlib.h>
#include <string.h>
#include <ucontext.h>

#define STACK_SZ (512 * 1024)
static ucontext_t ctx_main, ctx_thr[2];
static char *stacks[2];
static int cur = -1;                     /* running coroutine or -1 */
static int finished[2];
static void (*bodies[2])(void);
static uintptr_t a_lo, a_hi, b_lo, b_hi, d_lo, d_hi;

sched_stats SS;
static const uint32_t *preempt; static int npre, prei;

/* ------------------------------------------------------------ race detector */
#define GR_CAP (1u << 16)
typedef struct gran { uintptr_t addr; uint8_t rmask, wmask; void *pc[2]; uint8_t pcw[2]; } gran;
static gran *G; static uint32_t gused[GR_CAP]; static uint32_t ngused;
static race_rec RACES[64]; int nraces;

static gran *gran_get(uintptr_t a) {
    uint32_t h = (uint32_t)((a >> 3) * 2654435761u) & (GR_CAP - 1);
    for (;;) { if (G[h].addr == a) return &G[h]; if (G[h].addr == 0) { if (ngused >= GR_CAP / 2) return NULL; G[h].addr = a; gused[ngused++] = h; return &G[h]; } h = (h + 1) & (GR_CAP - 1); }
}
static void record(uintptr_t a, size_t n, int is_write, void *pc) {
    for (uintptr_t g = a & ~(uintptr_t)7; g < a + n; g += 8) {
        gran *e = gran_get(g); if (!e) return;
        int t = cur, o = 1 - cur;
        int conflict = is_write ? ((e->rmask | e->wmask) & (1 << o)) : (e->wmask & (1 << o));
        if (conflict && nraces < 64) {
            int dup = 0; for (int i = 0; i < nraces; i++) if (RACES[i].pc_a == pc && RACES[i].pc_b == e->pc[o]) dup = 1;
            if (!dup) { RACES[nraces].addr = g; RACES[nraces].pc_a = pc; RACES[nraces].pc_b = e->pc[o]; RACES[nraces].write_a = (uint8_t)is_write; RACES[nraces].write_b = e->pcw[o]; nraces++; }
        }
        if (is_write) e->wmask |= (uint8_t)(1 << t); else e->rmask |= (uint8_t)(1 << t);
        if (!e->pc[t] || (is_write && !e->pcw[t])) { e->pc[t] = pc; e->pcw[t] = (uint8_t)is_write; }
    }
}
static void forget(void *p, size_t size) {          /* free/alloc: the allocator's lock orders the old and the new owner */
    uintptr_t a = (uintptr_t)p;
    if (!G) return;
    for (uintptr_t g = a & ~(uintptr_t)7; g < a + size + 8; g += 8) {
        uint32_t h = (uint32_t)((g >> 3) * 2654435761u) & (GR_CAP - 1);
        while (G[h].addr) { if (G[h].addr == g) { G[h].rmask = G[h].wmask = 0; G[h].pc[0] = G[h].pc[1] = NULL; G[h].pcw[0] = G[h].pcw[1] = 0; break; } h = (h + 1) & (GR_CAP - 1); }
    }
}
static void gran_reset(void) { for (uint32_t i = 0; i < ngused; i++) memset(&G[gused[i]], 0, sizeof(gran)); ngused = 0; nraces = 0; }

/* ------------------------------------------------------------ scheduler */
static inline int is_shared(uintptr_t a) { return (a >= a_lo && a < a_hi) || (a >= b_lo && a < b_hi) || (a >= d_lo && a < d_hi); }

void (*vf_access_observer)(const void *addr, size_t n, int is_write);

static void point(const void *addr, size_t n, int is_write, void *pc) {
    if (vf_access_observer) vf_access_observer(addr, n, is_write);
    if (cur < 0) return;
    uintptr_t a = (uintptr_t)addr;
    if (!is_shared(a)) return;
    uint32_t me = SS.npoints++;
    SS.stream = SS.stream * 0x100000001b3ull ^ (a - a_lo) ^ ((uint64_t)is_write << 60) ^ ((uint64_t)cur << 61);
    if (me < SCHED_MAXPTS) { SS.pt_thread[me] = (uint8_t)cur; SS.pt_other_alive[me] = (uint8_t)!finished[1 - cur]; SS.pt_pc[me] = pc; }
    if (prei < npre && preempt[prei] == me) {
        prei++;
        if (!finished[1 - cur]) { int from = cur; cur = 1 - cur; SS.switches++; swapcontext(&ctx_thr[from], &ctx_thr[cur]); }
    }
    record(a, n, is_write, pc);
}
void vf_tsan_range(const void *p, size_t n, int is_write, void *pc) { if (n) point(p, n, is_write, pc); }

static void trampoline(int t) {
    bodies[t]();
    finished[t] = 1;
    int o = 1 - t;
    if (!finished[o]) { cur = o; setcontext(&ctx_thr[o]); }
    cur = -1; setcontext(&ctx_main);
}

void sched_run(void (*b0)(void), void (*b1)(void), int first, const uint32_t *pre, int n) {
    if (!stacks[0]) {
        stacks[0] = malloc(STACK_SZ); stacks[1] = malloc(STACK_SZ); G = calloc(GR_CAP, sizeof(gran));
        vf_arena_range(&a_lo, &a_hi); vf_core_sections(&b_lo, &b_hi, &d_lo, &d_hi);
        vf_on_free = forget; vf_on_alloc = forget;
    }
    gran_reset();
    memset(&SS, 0, sizeof SS); SS.stream = 0xcbf29ce484222325ull;
    preempt = pre; npre = n; prei = 0;
    bodies[0] = b0; bodies[1] = b1; finished[0] = finished[1] = 0;
    for (int t = 0; t < 2; t++) {
        getcontext(&ctx_thr[t]);
        ctx_thr[t].uc_stack.ss_sp = stacks[t]; ctx_thr[t].uc_stack.ss_size = STACK_SZ; ctx_thr[t].uc_link = &ctx_main;
        makecontext(&ctx_thr[t], (void (*)(void))trampoline, 1, t);
    }
    cur = first;
    swapcontext(&ctx_main, &ctx_thr[first]);
    cur = -1;
    SS.unused_preemptions = npre - prei;
}
const race_rec *sched_races(int *n) { *n = nraces; return RACES; }

/* ------------------------------------------------------------ TSan ABI */
void __tsan_init(void) {}
void __tsan_func_entry(void *pc) { (void)pc; }
void __tsan_func_exit(void) {}
#define RW(sz) \
    void __tsan_read##sz(void *a) { point(a, sz, 0, __builtin_return_address(0)); } \
    void __tsan_write##sz(void *a) { point(a, sz, 1, __builtin_return_address(0)); } \
    void __tsan_unaligned_read##sz(void *a) { point(a, sz, 0, __builtin_return_address(0)); } \
    void __tsan_unaligned_write##sz(void *a) { point(a, sz, 1, __builtin_return_address(0)); }
RW(1) RW(2) RW(4) RW(8) RW(16)
void __tsan_read_range(void *a, unsigned long n) { if (n) point(a, n, 0, __builtin_return_address(0)); }
void __tsan_write_range(void *a, unsigned long n) { if (n) point(a, n, 1, __builtin_return_address(0)); }
void *__tsan_memcpy(void *d, const void *s, unsigned long n) { if (n) { point(s, n, 0, __builtin_return_address(0)); point(d, n, 1, __builtin_return_address(0)); } return memcpy(d, s, n); }
void *__tsan_memmove(void *d, const void *s, unsigned long n) { if (n) { point(s, n, 0, __builtin_return_address(0)); point(d, n, 1, __builtin_return_address(0)); } return memmove(d, s, n); }
void *__tsan_memset(void *d, int c, unsigned long n) { if (n) point(d, n, 1, __builtin_return_address(0)); return memset(d, c, n); }
void __tsan_vptr_update(void **a, void *b) { (void)a; (void)b; }
void __tsan_vptr_read(void **a) { (void)a; }
