#ifndef TSAN_HOOKS_H
#define TSAN_HOOKS_H
#include "vf.h"
#define SCHED_MAXPTS 8192
typedef struct sched_stats {
    uint32_t npoints;                     /* scheduling points in this execution */
    uint32_t switches;                    /* preemptions actually taken */
    int      unused_preemptions;          /* requested preemption points that were never reached */
    uint64_t stream;                      /* hash of the (thread, address, r/w) stream: replay divergence check */
    uint8_t  pt_thread[SCHED_MAXPTS];     /* which thread was running at point i */
    uint8_t  pt_other_alive[SCHED_MAXPTS];/* could the other thread have been scheduled there */
    void    *pt_pc[SCHED_MAXPTS];         /* code address of the access */
} sched_stats;
extern sched_stats SS;
typedef struct race_rec { uintptr_t addr; void *pc_a, *pc_b; uint8_t write_a, write_b; } race_rec;
/* run two thread bodies as coroutines; `first` starts; switch to the other thread at the global
 * scheduling points listed in pre[0..n) (ascending); a finishing thread hands over to the other */
void sched_run(void (*b0)(void), void (*b1)(void), int first, const uint32_t *pre, int n);
const race_rec *sched_races(int *n);
extern void (*vf_access_observer)(const void *addr, size_t n, int is_write);   /* sees every instrumented access, also outside the scheduler */
void vf_tsan_range(const void *p, size_t n, int is_write, void *pc);
#endif
