/* Fork runner for the sanitizer flavour: executions run in child processes so that a fatal
 * sanitizer report (or any crash) is attributed to the execution that caused it and the
 * exploration continues with the next one. */
#ifndef FORKRUN_H
#define FORKRUN_H
#include "vf.h"
typedef struct fr_cfg {
    void (*exec)(uint64_t idx);                  /* run execution idx (child) */
    void (*describe)(uint64_t idx, FILE *f);     /* write the JSON fields that identify execution idx ("events":[...]) */
    const char *sig_prefix;                      /* e.g. "memory-safety" */
    int max_same_sig;                            /* stop after this many deaths with one signature (default 3) */
} fr_cfg;
typedef struct fr_stats { uint64_t executed; uint32_t deaths; const char *cap; } fr_stats;
void fr_run(const fr_cfg *c, uint64_t lo, uint64_t hi, fr_stats *st);
extern int vf_violation_sink_fd;                 /* child side: soft violations are piped to the parent */
extern uint64_t fr_current_idx;
void fr_note(uint64_t v);                        /* child: progress inside an execution (e.g. frame number) */
extern uint64_t fr_last_note;                    /* parent: the note of the execution that died */
#endif
