#ifndef E3_H
#define E3_H
#include "vf.h"
#define E3_MAXW 4
typedef struct e3_cfg {
    int  nworlds;
    int  nev;
    void (*ev_name)(int ev, char *buf, size_t cap);
    void (*pre_name)(int ev, char *buf, size_t cap);     /* names of seed-prefix events */
    int  (*touches)(int ev, int world);
    void (*apply)(int ev, int world);
    void (*after_apply)(int ev, int world);              /* optional extra oracle */
    const char *sig_prefix;
    const char *(*sig_of)(int ev);                        /* optional: class of the event for the signature */
    int  same_iface;                                      /* compare the interface index of port calls too */
    int  max_depth; double deadline_s;
    /* replay: rebuild the seed tuple from its prefix */
    void (*seed_from_prefix)(const int *prefix, int n, vf_snap **snaps);
} e3_cfg;
typedef struct e3_stats { uint64_t states, transitions, executions; uint32_t seeds; int max_depth, fixpoint; const char *cap; } e3_stats;
void e3_begin(const e3_cfg *c);
int  e3_add_seed(vf_snap *const *snap, const int *prefix, int nprefix);   /* 1 if new */
uint32_t e3_nseeds(void);
void e3_run(e3_stats *out);
void e3_reset(void);
int  e3_replay_file(const e3_cfg *c, const char *path);
#endif
