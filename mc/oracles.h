#ifndef ORACLES_H
#define ORACLES_H
#include "sigma.h"

/* reference mapper arbiter (C05 rule) */
enum { ARB_NONE = 0, ARB_TOP = 0xFF, ARB_OPENED = 0x80 };   /* ARB_OPENED|X: while no mapper was active, station X issued a command */
typedef struct arb { uint8_t v; } arb;
/* returns for a discovery-service Discover: 1 accept, 0 reject, -1 unconstrained; -2 for everything else */
int  arb_step(arb *a, const pev *e);

int  tr_sends(void);                       /* frames sent in this transition */
const vf_trec *tr_send(int k);             /* k-th send record */
const uint8_t *tr_bytes(const vf_trec *t);

void oracle_wellformed(int iface);         /* C02 structure of every transmitted frame */
void oracle_solicited(const pev *e);       /* C02 solicitation count */
void oracle_hello(const pev *e, int iface, int expect);   /* C03 content / C05 presence */
#endif
