#include "oracles.h"

#include <string.h>

static int disc_tos(uint8_t t) { return t == 0 || t == 1; }

/* Reference arbiter.  Values: NONE, a station X (active mapper), TOP (unconstrained until the next Reset), or
 * OPENED|X: a command (Emit / Query / QueryLargeTlv with a non-zero sequence number) arrived from X while no
 * mapper was active.  The statement keeps such commands inside its domain ("... or while none is active") but
 * does not say whether they make X the mapper.  Either way a following Discover from X must be answered
 * (X is the mapper, or nobody is); a Discover from somebody else is unconstrained (silence if X became the
 * mapper, a Hello if nobody did), and after it the arbiter no longer knows: TOP. */
int arb_step(arb *a, const pev *e) {
    if (!disc_tos(e->tos)) return -2;
    switch (e->opcode) {
        case 0x00:
            if (a->v == ARB_TOP) return -1;
            if (a->v == ARB_NONE) { a->v = e->realsrc; return 1; }
            if (a->v & ARB_OPENED) {
                if ((a->v & 0x7F) == e->realsrc) { a->v = e->realsrc; return 1; }
                a->v = ARB_TOP; return -1;
            }
            return a->v == e->realsrc ? 1 : 0;
        case 0x08: a->v = ARB_NONE; return -2;
        case 0x02: case 0x06: case 0x0B:
            if (a->v == ARB_TOP || a->v == e->realsrc) return -2;          /* command from the active mapper: no change */
            if (a->v == ARB_NONE) { a->v = (uint8_t)(ARB_OPENED | e->realsrc); return -2; }
            if ((a->v & ARB_OPENED) && (a->v & 0x7F) == e->realsrc) return -2;
            a->v = ARB_TOP;                                                  /* a stranger's command: take-over unconstrained */
            return -2;
        default: return -2;
    }
}

int tr_sends(void) { int n = 0; for (uint32_t i = 0; i < W.ntrace; i++) if (W.trace[i].kind == VF_T_SEND) n++; return n; }
const vf_trec *tr_send(int k) { for (uint32_t i = 0; i < W.ntrace; i++) if (W.trace[i].kind == VF_T_SEND && k-- == 0) return &W.trace[i]; return NULL; }
const uint8_t *tr_bytes(const vf_trec *t) { return vf_trace_bytes + t->off; }

void oracle_wellformed(int iface) {
    for (uint32_t i = 0; i < W.ntrace; i++) {
        const vf_trec *t = &W.trace[i];
        if (t->kind != VF_T_SEND) continue;
        if (t->iface != iface) { vf_violation("sent-on-wrong-interface", "frame handed to interface %u while serving interface %d", t->iface, iface); continue; }
        wd_frame f;
        if (wd_decode(tr_bytes(t), t->len, &f) != 0) { vf_violation("malformed:shorter-than-base-header", "transmitted %u bytes", t->len); continue; }
        size_t eff = W.env.mtu_alt ? (W.iface[iface].mtu == 1500 ? 9216 : 1500) : W.iface[iface].mtu;
        const char *why = wd_wellformed(&f, W.iface[iface].mac, eff);
        if (why) {
            char sig[120]; snprintf(sig, sizeof sig, "malformed:%s:op=0x%02x", why, f.opcode);
            vf_violation(sig, "transmitted frame (opcode 0x%02x, %zu bytes, MTU %zu) is not well-formed: %s", f.opcode, f.len, eff, why);
        }
    }
}

void oracle_solicited(const pev *e) {
    int n = tr_sends();
    int allowed = 0;
    if (disc_tos(e->tos)) {
        if (e->opcode == 0x00 || e->opcode == 0x06 || e->opcode == 0x0B) allowed = 1;
        else if (e->opcode == 0x02) allowed = (e->declared_set ? e->declared : e->nd) + 1;
    }
    if (n > allowed) {
        char nm[160]; pev_name(e, nm, sizeof nm);
        char sig[96]; snprintf(sig, sizeof sig, "unsolicited:op=0x%02x:tos=%s", e->opcode, disc_tos(e->tos) ? "disc" : "foreign");
        vf_violation(sig, "%s made the responder transmit %d frame(s); at most %d allowed", nm, n, allowed);
        return;
    }
    /* a request solicits its own kind of answer only: Discover -> Hello, Query -> QueryResp, QueryLargeTlv -> QueryLargeTlvResp,
     * Emit -> Probe / Train / ACK */
    for (int k = 0; k < n; k++) {
        const vf_trec *t = tr_send(k); if (t->len < 18) continue;
        uint8_t op = tr_bytes(t)[17];
        int ok = e->opcode == 0x00 ? op == 0x01 : e->opcode == 0x06 ? op == 0x07 : e->opcode == 0x0B ? op == 0x0C : (op == 0x03 || op == 0x04 || op == 0x05);
        if (!ok) {
            char nm[160]; pev_name(e, nm, sizeof nm);
            char sig[96]; snprintf(sig, sizeof sig, "unsolicited:answer-kind:op=0x%02x", e->opcode);
            vf_violation(sig, "%s was answered with a frame of opcode 0x%02x, which this request does not solicit", nm, op);
        }
    }
}

void oracle_hello(const pev *e, int iface, int expect) {
    if (e->opcode != 0x00 || !disc_tos(e->tos)) return;
    char nm[160]; pev_name(e, nm, sizeof nm);
    int n = tr_sends();
    if (expect == 0) {
        if (n) vf_violation("stranger-discover-answered", "%s is not from the active mapper but %d frame(s) were sent", nm, n);
        return;
    }
    if (expect != 1) return;
    if (n != 1) { vf_violation("accepted-discover:frame-count", "%s accepted, but %d frames sent instead of exactly one Hello", nm, n); return; }
    const vf_trec *t = tr_send(0);
    wd_frame f; wd_decode(tr_bytes(t), t->len, &f);
    const uint8_t *own = W.iface[iface].mac;
    static const uint8_t bc[6] = {0xff, 0xff, 0xff, 0xff, 0xff, 0xff};
#define BAD(sig, ...) do { vf_violation("hello:" sig, __VA_ARGS__); } while (0)
    if (t->len < 46 || f.opcode != 0x01) { BAD("not-a-hello", "%s answered with opcode 0x%02x len %u", nm, f.opcode, t->len); return; }
    if (memcmp(f.ethdst, bc, 6) || memcmp(f.realdst, bc, 6)) BAD("not-broadcast", "%s: Hello not broadcast at Ethernet and LLTD level", nm);
    if (memcmp(f.ethsrc, own, 6) || memcmp(f.realsrc, own, 6)) BAD("source-not-own", "%s: Hello not sourced from the interface's own address", nm);
    if (f.tos != e->tos) BAD("wrong-service", "%s: Hello has ToS %u", nm, f.tos);
    if (f.seq != 0) BAD("seq-nonzero", "%s: Hello carries sequence number 0x%04x", nm, f.seq);
    if (memcmp(f.curmap, pev_addr(e->realsrc, iface), 6)) BAD("current-mapper", "%s: current mapper field %02x:..:%02x is not the Discover's real source", nm, f.curmap[0], f.curmap[5]);
    if (memcmp(f.appmap, pev_addr(e->ethsrc, iface), 6)) BAD("apparent-mapper", "%s: apparent mapper field %02x:..:%02x is not the Discover's Ethernet source", nm, f.appmap[0], f.appmap[5]);
    if (f.gen != e->gen) BAD("generation", "%s: Hello carries generation 0x%04x", nm, f.gen);
#undef BAD
}
