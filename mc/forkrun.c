#include "forkrun.h"

#include <ctype.h>
#include <errno.h>
#include <poll.h>
#include <signal.h>
#include <stdlib.h>
#include <string.h>
#include <sys/mman.h>
#include <sys/wait.h>
#include <unistd.h>

typedef struct shared { volatile uint64_t cur, done, evals, note; } shared;
static shared *SH;
uint64_t fr_current_idx;
uint64_t fr_last_note;
void fr_note(uint64_t v) { if (SH) SH->note = v; }
static const fr_cfg *FC;
static void cexw(FILE *f) { FC->describe(fr_current_idx, f); }

extern void vf_outcome_make_shared(void);

/* derive a stable signature from sanitizer output */
static void classify(const char *err, int status, char *sig, size_t cap, char *detail, size_t dcap) {
    char kind[96] = "", func[96] = "";
    const char *p;
    if ((p = strstr(err, "AddressSanitizer: "))) {
        p += 18; size_t i = 0; while (p[i] && p[i] != ' ' && p[i] != '\n' && i < 60) { kind[i] = p[i]; i++; } kind[i] = 0;
        memmove(kind + 5, kind, strlen(kind) + 1); memcpy(kind, "asan:", 5);
    } else if ((p = strstr(err, "runtime error: "))) {
        p += 15; size_t i = 0, o = 0; memcpy(kind, "ubsan:", 6); o = 6;
        while (p[i] && p[i] != '\n' && o < 60) {
            char c = p[i++];
            if (isdigit((unsigned char)c)) { if (o && kind[o - 1] == 'N') continue; kind[o++] = 'N'; }
            else if (c == ' ' || c == '\'') { if (o && kind[o - 1] != '-') kind[o++] = '-'; }
            else if (c == '-' ) { if (o && kind[o - 1] != '-') kind[o++] = '-'; }
            else kind[o++] = c;
        }
        kind[o] = 0;
    } else if (WIFSIGNALED(status)) snprintf(kind, sizeof kind, "crash:signal-%d", WTERMSIG(status));
    else snprintf(kind, sizeof kind, "crash:exit-%d", WEXITSTATUS(status));
    /* innermost frame that lies in the repository; else the innermost frame */
    const char *best = NULL, *q = err;
    while ((q = strstr(q, " in "))) {
        const char *line_end = strchr(q, '\n'); if (!line_end) line_end = q + strlen(q);
        const char *hash = q; while (hash > err && *hash != '#' && *hash != '\n') hash--;
        if (*hash == '#') {
            if (!best) best = q;
            const char *repo = strstr(q, "/repo/");
            if (repo && repo < line_end) { best = q; break; }
        }
        q = line_end;
    }
    if (best) { best += 4; size_t i = 0; while (best[i] && best[i] != ' ' && best[i] != '\n' && i < 80) { func[i] = best[i]; i++; } func[i] = 0; }
    snprintf(sig, cap, "%s:%s:%s", FC->sig_prefix, kind, func[0] ? func : "?");
    /* detail: the sanitizer's headline */
    const char *h = strstr(err, "ERROR: AddressSanitizer"); if (!h) h = strstr(err, "runtime error"); if (!h) h = err;
    if (h != err && strstr(err, "runtime error")) { const char *ls = h; while (ls > err && ls[-1] != '\n') ls--; h = ls; }
    size_t i = 0; while (h[i] && h[i] != '\n' && i + 1 < dcap) { detail[i] = h[i]; i++; } detail[i] = 0;
}

void fr_run(const fr_cfg *c, uint64_t lo, uint64_t hi, fr_stats *st) {
    FC = c;
    memset(st, 0, sizeof *st);
    if (!SH) { SH = mmap(NULL, 4096, PROT_READ | PROT_WRITE, MAP_SHARED | MAP_ANONYMOUS, -1, 0); vf_outcome_make_shared(); }
    double t0 = vf_now_s();
    struct { char sig[200]; int n; } seen[64]; int nseen = 0;
    uint64_t start = lo;
    int maxsame = c->max_same_sig ? c->max_same_sig : 3;
    while (start < hi) {
        int pe[2], pv[2];
        if (pipe(pe) || pipe(pv)) vf_harness_error("pipe failed");
        SH->cur = start; SH->done = start;
        fflush(NULL);
        pid_t pid = fork();
        if (pid < 0) vf_harness_error("fork failed");
        if (pid == 0) {
            close(pe[0]); close(pv[0]);
            dup2(pe[1], 2); close(pe[1]);
            vf_violation_sink_fd = pv[1];
            for (uint64_t i = start; i < hi; i++) {
                SH->cur = i; fr_current_idx = i;
                c->exec(i);
                SH->done = i + 1; SH->evals++;
                if ((i & 1023) == 0 && vf_now_s() - t0 > A.deadline) _exit(7);
            }
            _exit(0);
        }
        close(pe[1]); close(pv[1]);
        static char err[1 << 16], vio[1 << 18]; size_t ne = 0, nv = 0;
        struct pollfd fds[2] = { { pe[0], POLLIN, 0 }, { pv[0], POLLIN, 0 } };
        int open_fds = 2;
        while (open_fds) {
            if (poll(fds, 2, -1) < 0) { if (errno == EINTR) continue; break; }
            for (int k = 0; k < 2; k++) {
                if (fds[k].fd < 0 || !(fds[k].revents & (POLLIN | POLLHUP | POLLERR))) continue;
                char tmp[8192]; ssize_t r = read(fds[k].fd, tmp, sizeof tmp);
                if (r <= 0) { close(fds[k].fd); fds[k].fd = -1; open_fds--; continue; }
                if (k == 0) {      /* keep the tail: the sanitizer report comes last */
                    if (ne + (size_t)r > sizeof err - 1) { size_t keep = (sizeof err) / 2; if (ne > keep) { memmove(err, err + ne - keep, keep); ne = keep; } }
                    size_t room = sizeof err - 1 - ne; size_t cp = (size_t)r < room ? (size_t)r : room; memcpy(err + ne, tmp, cp); ne += cp;
                }
                else { size_t room = sizeof vio - 1 - nv; size_t cp = (size_t)r < room ? (size_t)r : room; memcpy(vio + nv, tmp, cp); nv += cp; }
            }
        }
        err[ne] = 0; vio[nv] = 0;
        int status = 0; waitpid(pid, &status, 0);
        /* soft violations piped by the child: "idx\tsig\tdetail\n" */
        for (char *line = vio; *line;) {
            char *nl = strchr(line, '\n'); if (nl) *nl = 0;
            char *t1 = strchr(line, '\t'), *t2 = t1 ? strchr(t1 + 1, '\t') : NULL;
            if (t1 && t2) { *t1 = 0; *t2 = 0; fr_current_idx = strtoull(line, NULL, 10); vf_cex_writer = cexw; vf_violation(t1 + 1, "%s", t2 + 1); }
            if (!nl) break;
            line = nl + 1;
        }
        if (WIFEXITED(status) && WEXITSTATUS(status) == 0) { st->executed += hi - start; start = hi; break; }
        if (WIFEXITED(status) && WEXITSTATUS(status) == 7) { st->executed += SH->done - start; st->cap = "deadline"; break; }
        if (WIFEXITED(status) && WEXITSTATUS(status) == 3) { fprintf(stderr, "%s", err); vf_harness_error("child reported a harness error at execution %llu", (unsigned long long)SH->cur); }
        uint64_t idx = SH->cur; fr_last_note = SH->note;
        char sig[220], detail[400]; classify(err, status, sig, sizeof sig, detail, sizeof detail);
        fr_current_idx = idx; vf_cex_writer = cexw;
        vf_violation(sig, "execution %llu: %s", (unsigned long long)idx, detail[0] ? detail : "child process died");
        st->deaths++; st->executed += idx + 1 - start;
        int k; for (k = 0; k < nseen; k++) if (!strcmp(seen[k].sig, sig)) break;
        if (k == nseen && nseen < 64) { snprintf(seen[k].sig, sizeof seen[k].sig, "%s", sig); seen[k].n = 0; nseen++; }
        if (k < 64 && ++seen[k].n >= maxsame) { st->cap = "stopped-after-violation"; break; }
        if (st->deaths >= 60) { st->cap = "stopped-after-violation"; break; }
        start = idx + 1;
    }
}
