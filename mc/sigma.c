#include "sigma.h"

#include <string.h>

void parseFrame(void *frame, void *iface_ctx);    /* code under test */

const uint8_t *pev_addr(int station, int iface) {
    if (station == ST_OWN) return W.iface[iface].mac;
    return vf_station[station];
}

size_t pev_build(const pev *e, int iface, uint8_t *b) {
    size_t n;
    const uint8_t *ed = pev_addr(e->ethdst, iface), *es = pev_addr(e->ethsrc, iface);
    const uint8_t *rd = pev_addr(e->realdst, iface), *rs = pev_addr(e->realsrc, iface);
    n = fb_base(b, ed, es, e->tos, e->opcode, rd, rs, e->seq);
    switch (e->opcode) {
        case 0x00: {
            b[32] = (uint8_t)(e->gen >> 8); b[33] = (uint8_t)e->gen;
            b[34] = (uint8_t)(e->nsta >> 8); b[35] = (uint8_t)e->nsta;
            n = 36;
            for (unsigned i = 0; i < e->nsta; i++) {
                uint8_t a[6] = {0x00, 0x1b, 0x21, 0x00, (uint8_t)(i >> 8), (uint8_t)i};
                if ((int)i == e->own_pos) memcpy(a, W.iface[iface].mac, 6);
                memcpy(b + n, a, 6); n += 6;
            }
            break;
        }
        case 0x01: {
            b[32] = (uint8_t)(e->gen >> 8); b[33] = (uint8_t)e->gen;
            memcpy(b + 34, vf_station[ST_M1], 6); memcpy(b + 40, vf_station[ST_M1], 6);
            b[46] = 0x01; b[47] = 6; memcpy(b + 48, rs, 6); b[54] = 0; n = 55;
            break;
        }
        case 0x02: {
            uint16_t dec = e->declared_set ? e->declared : e->nd;
            b[32] = (uint8_t)(dec >> 8); b[33] = (uint8_t)dec; n = 34;
            for (unsigned i = 0; i < e->nd; i++) {
                b[n] = e->d[i].type; b[n + 1] = e->d[i].pause;
                memcpy(b + n + 2, pev_addr(e->d[i].src, iface), 6);
                memcpy(b + n + 8, pev_addr(e->d[i].dst, iface), 6);
                n += 14;
            }
            break;
        }
        case 0x0B:
            b[32] = e->ltype; b[33] = 0; b[34] = (uint8_t)(e->loff >> 8); b[35] = (uint8_t)e->loff; n = 36;
            break;
        default: break;
    }
    while (n < e->pad_to) b[n++] = 0;
    return n;
}

static const char *opname(uint8_t op) {
    static const char *n[] = {"Discover", "Hello", "Emit", "Train", "Probe", "ACK", "Query", "QueryResp", "Reset", "Charge", "Flat", "QueryLargeTlv", "QueryLargeTlvResp"};
    return op < 13 ? n[op] : "Op";
}

void pev_name(const pev *e, char *out, size_t cap) {
    size_t o = (size_t)snprintf(out, cap, "%s", opname(e->opcode));
    if (e->opcode >= 13) o += (size_t)snprintf(out + o, cap - o, "0x%02x", e->opcode);
    o += (size_t)snprintf(out + o, cap - o, "(tos=%u,from=%s", e->tos, vf_station_name(e->realsrc));
    if (e->ethsrc != e->realsrc) o += (size_t)snprintf(out + o, cap - o, ",via=%s", vf_station_name(e->ethsrc));
    if (e->opcode == 0x00) o += (size_t)snprintf(out + o, cap - o, ",gen=0x%04x,seq=0x%04x,nsta=%u,ownpos=%d", e->gen, e->seq, e->nsta, e->own_pos);
    else if (e->opcode == 0x01) o += (size_t)snprintf(out + o, cap - o, ",gen=0x%04x", e->gen);
    else if (e->opcode == 0x02) {
        o += (size_t)snprintf(out + o, cap - o, ",seq=0x%04x,n=%u", e->seq, e->declared_set ? e->declared : e->nd);
        for (unsigned i = 0; i < e->nd && i < 4; i++)
            o += (size_t)snprintf(out + o, cap - o, ",[%s p%u %s>%s]", e->d[i].type == 1 ? "Probe" : e->d[i].type == 0 ? "Train" : "?", e->d[i].pause, vf_station_name(e->d[i].src), vf_station_name(e->d[i].dst));
    } else if (e->opcode == 0x0B) o += (size_t)snprintf(out + o, cap - o, ",seq=0x%04x,type=0x%02x,off=%u", e->seq, e->ltype, e->loff);
    else if (e->opcode == 0x06) o += (size_t)snprintf(out + o, cap - o, ",seq=0x%04x", e->seq);
    else if (e->opcode == 0x03 || e->opcode == 0x04) o += (size_t)snprintf(out + o, cap - o, ",to=%s/%s", vf_station_name(e->realdst), vf_station_name(e->ethdst));
    snprintf(out + o, cap - o, ")");
}

void drv_linux_deliver(int iface, const uint8_t *frame, size_t len) {
    vf_iface *f = &W.iface[iface];
    if (len > f->mtu) len = f->mtu;                /* recvfrom(..., MTU) truncates */
    memcpy(f->recv, frame, len);
    f->recv_prev_len = len;
    W.cur_request++;
    parseFrame(f->recv, vf_ctx(iface));
}

void drv_linux(const pev *e, int iface) {
    static uint8_t buf[VF_MAXMTU + 64];
    /* complete frames into a zeroed buffer: every byte the core reads was received */
    vf_iface *f = &W.iface[iface];
    memset(f->recv, 0, f->recv_prev_len);
    size_t n = pev_build(e, iface, buf);
    drv_linux_deliver(iface, buf, n);
}

pev ev_discover(uint8_t tos, int realsrc, int ethsrc, uint16_t gen, uint16_t seq) {
    pev e; memset(&e, 0, sizeof e);
    e.opcode = 0; e.tos = tos; e.realsrc = (uint8_t)realsrc; e.ethsrc = (uint8_t)ethsrc; e.realdst = ST_BC; e.ethdst = ST_BC;
    e.gen = gen; e.seq = seq; e.nsta = 0; e.own_pos = -1;
    return e;
}
pev ev_reset(uint8_t tos, int src) {
    pev e; memset(&e, 0, sizeof e);
    e.opcode = 8; e.tos = tos; e.realsrc = e.ethsrc = (uint8_t)src; e.realdst = ST_BC; e.ethdst = ST_BC; e.own_pos = -1;
    return e;
}
pev ev_hello(uint8_t tos, int src, uint16_t gen) {
    pev e; memset(&e, 0, sizeof e);
    e.opcode = 1; e.tos = tos; e.realsrc = e.ethsrc = (uint8_t)src; e.realdst = ST_BC; e.ethdst = ST_BC; e.gen = gen; e.own_pos = -1;
    return e;
}
pev ev_probe(uint8_t opcode, uint8_t tos, int realsrc, int ethsrc, int realdst, int ethdst) {
    pev e; memset(&e, 0, sizeof e);
    e.opcode = opcode; e.tos = tos; e.realsrc = (uint8_t)realsrc; e.ethsrc = (uint8_t)ethsrc; e.realdst = (uint8_t)realdst; e.ethdst = (uint8_t)ethdst; e.own_pos = -1;
    return e;
}
pev ev_query(uint8_t tos, int realsrc, int ethsrc, uint16_t seq) {
    pev e; memset(&e, 0, sizeof e);
    e.opcode = 6; e.tos = tos; e.realsrc = (uint8_t)realsrc; e.ethsrc = (uint8_t)ethsrc; e.realdst = ST_OWN; e.ethdst = ST_OWN; e.seq = seq; e.own_pos = -1;
    return e;
}
pev ev_qlt(uint8_t tos, int realsrc, int ethsrc, uint16_t seq, uint8_t type, uint16_t off) {
    pev e = ev_query(tos, realsrc, ethsrc, seq);
    e.opcode = 0x0B; e.ltype = type; e.loff = off;
    return e;
}
pev ev_emit1(uint8_t tos, int realsrc, int ethsrc, uint16_t seq, uint8_t type, uint8_t pause, int src, int dst) {
    pev e = ev_query(tos, realsrc, ethsrc, seq);
    e.opcode = 2; e.nd = 1; e.d[0].type = type; e.d[0].pause = pause; e.d[0].src = (uint8_t)src; e.d[0].dst = (uint8_t)dst;
    return e;
}
pev ev_raw(uint8_t tos, uint8_t opcode, int realsrc, int ethsrc) {
    pev e; memset(&e, 0, sizeof e);
    e.opcode = opcode; e.tos = tos; e.realsrc = (uint8_t)realsrc; e.ethsrc = (uint8_t)ethsrc; e.realdst = ST_OWN; e.ethdst = ST_OWN; e.own_pos = -1;
    e.pad_to = 64;
    return e;
}
