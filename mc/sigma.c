#include "sigma.h"

#include <string.h>

void parseFrame(void *frame, void *iface_ctx);    /* code under test */

const uint8_t *pev_addr(int station, int iface) {
    if (station == ST_OWN) return W.iface[iface].mac;
    if (station == ST_SIB) return W.iface[iface == 0 ? 1 : 0].mac;
    return vf_station[station];
}

size_t pev_build(const pev *e, int iface, uint8_t *b) {
    size_t n;
    const uint8_t *ed = pev_addr(e->ethdst, iface), *es = pev_addr(e->ethsrc, iface);
    const uint8_t *rd = pev_addr(e->realdst, iface), *rs = pev_addr(e->realsrc, iface);
    n = fb_base(b, ed, es, e->tos, e->opcode, rd, rs, e->seq);
    switch (e->opcode) {
        case 0x00: {
            b[32] = (uint8_t)(e->gen >> 8); b[33] = (uint8_t)e->gen;
            b[34] = (uint8_t)(e->nsta >> 8); b[35] = (uint8_t)e->nsta;
            n = 36;
            for (unsigned i = 0; i < e->nsta; i++) {
                uint8_t a[6] = {0x00, 0x1b, 0x21, 0x00, (uint8_t)(i >> 8), (uint8_t)i};
                if ((int)i == e->own_pos) memcpy(a, W.iface[iface].mac, 6);
                memcpy(b + n, a, 6); n += 6;
            }
            break;
        }
        case 0x01: {
            b[32] = (uint8_t)(e->gen >> 8); b[33] = (uint8_t)e->gen;
            memcpy(b + 34, vf_station[ST_M1], 6); memcpy(b + 40, vf_station[ST_M1], 6);
            b[46] = 0x01; b[47] = 6; memcpy(b + 48, rs, 6); b[54] = 0; n = 55;
            break;
        }
        case 0x02: {
            uint16_t dec = e->declared_set ? e->declared : e->nd;
            b[32] = (uint8_t)(dec >> 8); b[33] = (uint8_t)dec; n = 34;
            for (unsigned i = 0; i < e->nd; i++) {
                b[n] = e->d[i].type; b[n + 1] = e->d[i].pause;
                memcpy(b + n + 2, pev_addr(e->d[i].src, iface), 6);
                memcpy(b + n + 8, pev_addr(e->d[i].dst, iface), 6);
                n += 14;
            }
            break;
        }
        case 0x0B:
            b[32] = e->ltype; b[33] = 0; b[34] = (uint8_t)(e->loff >> 8); b[35] = (uint8_t)e->loff; n = 36;
            break;
        default: break;
    }
    while (n < e->pad_to) b[n++] = 0;
    return n;
}

static const char *opname(uint8_t op) {
    static const char *n[] = {"Discover", "Hello", "Emit", "Train", "Probe", "ACK", "Query", "QueryResp", "Reset", "Charge", "Flat", "QueryLargeTlv", "QueryLargeTlvResp"};
    return op < 13 ? n[op] : "Op";
}

void pev_name(const pev *e, char *out, size_t cap) {
    if (e->opcode == 0xF0 && e->tos == 0xEE) { snprintf(out, cap, "Env(platform icon changes)"); return; }
    if (e->opcode == 0xF0 && e->tos == 0xEF) { snprintf(out, cap, "Env(the interface's MTU is changed)"); return; }
    size_t o = (size_t)snprintf(out, cap, "%s", opname(e->opcode));
    if (e->opcode >= 13) o += (size_t)snprintf(out + o, cap - o, "0x%02x", e->opcode);
    o += (size_t)snprintf(out + o, cap - o, "(tos=%u,from=%s", e->tos, vf_station_name(e->realsrc));
    if (e->ethsrc != e->realsrc) o += (size_t)snprintf(out + o, cap - o, ",via=%s", vf_station_name(e->ethsrc));
    if (e->opcode == 0x00) o += (size_t)snprintf(out + o, cap - o, ",gen=0x%04x,seq=0x%04x,nsta=%u,ownpos=%d", e->gen, e->seq, e->nsta, e->own_pos);
    else if (e->opcode == 0x01) o += (size_t)snprintf(out + o, cap - o, ",gen=0x%04x", e->gen);
    else if (e->opcode == 0x02) {
        o += (size_t)snprintf(out + o, cap - o, ",seq=0x%04x,n=%u", e->seq, e->declared_set ? e->declared : e->nd);
        for (unsigned i = 0; i < e->nd && i < 4; i++)
            o += (size_t)snprintf(out + o, cap - o, ",[%s p%u %s>%s]", e->d[i].type == 1 ? "Probe" : e->d[i].type == 0 ? "Train" : "?", e->d[i].pause, vf_station_name(e->d[i].src), vf_station_name(e->d[i].dst));
    } else if (e->opcode == 0x0B) o += (size_t)snprintf(out + o, cap - o, ",seq=0x%04x,type=0x%02x,off=%u", e->seq, e->ltype, e->loff);
    else if (e->opcode == 0x06) o += (size_t)snprintf(out + o, cap - o, ",seq=0x%04x", e->seq);
    else if (e->opcode == 0x03 || e->opcode == 0x04) o += (size_t)snprintf(out + o, cap - o, ",to=%s/%s", vf_station_name(e->realdst), vf_station_name(e->ethdst));
    snprintf(out + o, cap - o, ")");
}

void drv_linux_deliver(int iface, const uint8_t *frame, size_t len) {
    vf_iface *f = &W.iface[iface];
    size_t eff = W.env.mtu_alt ? (f->mtu == 1500 ? 9216 : 1500) : f->mtu;      /* the MTU the interface has NOW (environment event "MTU is changed") */
    if (len > eff) len = eff;                      /* recvfrom(..., MTU) truncates */
    memcpy(f->recv, frame, len);
    f->recv_prev_len = len;
    W.cur_request++;
    vf_cur_iface = iface;
    parseFrame(f->recv, vf_ctx(iface));
}

void drv_linux(const pev *e, int iface) {
    static uint8_t buf[VF_MAXMTU + 64];
    if (e->opcode == 0xF0 && e->tos == 0xEF) { W.env.mtu_alt ^= 1u; return; }      /* environment event: jumbo frames switched on / off */
    if (e->opcode == 0xF0 && e->tos == 0xEE) { W.env.icon_epoch = (W.env.icon_epoch + 1) % 3; return; }   /* environment event, not a frame: icon A -> icon B -> empty icon -> icon A */
    /* complete frames into a zeroed buffer: every byte the core reads was received */
    vf_iface *f = &W.iface[iface];
    memset(f->recv, 0, f->recv_prev_len);
    size_t n = pev_build(e, iface, buf);
    drv_linux_deliver(iface, buf, n);
}

pev ev_discover(uint8_t tos, int realsrc, int ethsrc, uint16_t gen, uint16_t seq) {
    pev e; memset(&e, 0, sizeof e);
    e.opcode = 0; e.tos = tos; e.realsrc = (uint8_t)realsrc; e.ethsrc = (uint8_t)ethsrc; e.realdst = ST_BC; e.ethdst = ST_BC;
    e.gen = gen; e.seq = seq; e.nsta = 0; e.own_pos = -1;
    return e;
}
pev ev_reset(uint8_t tos, int src) {
    pev e; memset(&e, 0, sizeof e);
    e.opcode = 8; e.tos = tos; e.realsrc = e.ethsrc = (uint8_t)src; e.realdst = ST_BC; e.ethdst = ST_BC; e.own_pos = -1;
    return e;
}
pev ev_hello(uint8_t tos, int src, uint16_t gen) {
    pev e; memset(&e, 0, sizeof e);
    e.opcode = 1; e.tos = tos; e.realsrc = e.ethsrc = (uint8_t)src; e.realdst = ST_BC; e.ethdst = ST_BC; e.gen = gen; e.own_pos = -1;
    return e;
}
pev ev_probe(uint8_t opcode, uint8_t tos, int realsrc, int ethsrc, int realdst, int ethdst) {
    pev e; memset(&e, 0, sizeof e);
    e.opcode = opcode; e.tos = tos; e.realsrc = (uint8_t)realsrc; e.ethsrc = (uint8_t)ethsrc; e.realdst = (uint8_t)realdst; e.ethdst = (uint8_t)ethdst; e.own_pos = -1;
    return e;
}
pev ev_query(uint8_t tos, int realsrc, int ethsrc, uint16_t seq) {
    pev e; memset(&e, 0, sizeof e);
    e.opcode = 6; e.tos = tos; e.realsrc = (uint8_t)realsrc; e.ethsrc = (uint8_t)ethsrc; e.realdst = ST_OWN; e.ethdst = ST_OWN; e.seq = seq; e.own_pos = -1;
    return e;
}
pev ev_qlt(uint8_t tos, int realsrc, int ethsrc, uint16_t seq, uint8_t type, uint16_t off) {
    pev e = ev_query(tos, realsrc, ethsrc, seq);
    e.opcode = 0x0B; e.ltype = type; e.loff = off;
    return e;
}
pev ev_emit1(uint8_t tos, int realsrc, int ethsrc, uint16_t seq, uint8_t type, uint8_t pause, int src, int dst) {
    pev e = ev_query(tos, realsrc, ethsrc, seq);
    e.opcode = 2; e.nd = 1; e.d[0].type = type; e.d[0].pause = pause; e.d[0].src = (uint8_t)src; e.d[0].dst = (uint8_t)dst;
    return e;
}
pev ev_raw(uint8_t tos, uint8_t opcode, int realsrc, int ethsrc) {
    pev e; memset(&e, 0, sizeof e);
    e.opcode = opcode; e.tos = tos; e.realsrc = (uint8_t)realsrc; e.ethsrc = (uint8_t)ethsrc; e.realdst = ST_OWN; e.ethdst = ST_OWN; e.own_pos = -1;
    e.pad_to = 64;
    return e;
}

int sigma_build(pev *out, int cap, int variant) {
    int n = 0;
#define ADD(x) do { if (n < cap) out[n] = (x); n++; } while (0)
    if (variant == SIGMA_SMALL) {
        ADD(ev_discover(0, ST_M1, ST_M1, 0x1234, 1));
        ADD(ev_discover(1, ST_M2, ST_BR, 0xFFFF, 0));
        ADD(ev_discover(1, ST_M2, ST_BR, 0, 3));             /* a quick Discover with generation 0 */
        ADD(ev_discover(0, ST_M2, ST_M2, 0, 1));
        ADD(ev_discover(0, ST_M1, ST_BR, 0x1234, 1));        /* the same mapper through another path */
        ADD(ev_reset(0, ST_M1)); ADD(ev_reset(1, ST_M1));
        ADD(ev_hello(0, ST_PEER, 0x3412));
        ADD(ev_probe(0x04, 0, ST_S0, ST_S0, ST_OWN, ST_OWN));
        ADD(ev_probe(0x03, 0, ST_S1, ST_BR, ST_OWN, ST_OWN));
        ADD(ev_probe(0x04, 0, ST_S0, ST_S0, ST_PEER, ST_PEER));
        ADD(ev_emit1(0, ST_M1, ST_M1, 7, 1, 3, ST_S0, ST_PEER));
        ADD(ev_query(0, ST_M1, ST_M1, 2));
        ADD(ev_query(0, ST_M2, ST_BR, 9));
        ADD(ev_qlt(0, ST_M1, ST_M1, 5, 0x0E, 0));
        ADD(ev_qlt(1, ST_M1, ST_M1, 5, 0x0E, 1000));
        ADD(ev_qlt(0, ST_M1, ST_M1, 5, 0x11, 0));
        ADD(ev_qlt(0, ST_M1, ST_M1, 0, 0x0E, 0));
        ADD(ev_emit1(0, ST_M1, ST_M1, 0, 1, 0, ST_S0, ST_PEER));      /* unsequenced commands (sequence number 0) */
        ADD(ev_query(0, ST_M1, ST_M1, 0));
        ADD(ev_raw(2, 0, ST_M3, ST_M3)); ADD(ev_raw(0, 9, ST_M1, ST_M1));
        ADD(ev_raw(0xEE, 0xF0, ST_ZERO, ST_ZERO));
        return n;
    }
    /* Discover family */
    if (variant == SIGMA_P) {
        static const uint16_t gens[] = {0, 0x1234, 0xFFFF}; static const uint16_t seqs[] = {0, 1};
        for (int tos = 0; tos < 2; tos++) for (int m = 0; m < 2; m++) for (int br = 0; br < 2; br++)
            for (unsigned g = 0; g < 3; g++) for (unsigned s = 0; s < 2; s++) {
                int st = m ? ST_M2 : ST_M1;
                ADD(ev_discover((uint8_t)tos, st, br ? ST_BR : st, gens[g], seqs[s]));
            }
        /* a Discover that names OUR address as its real source (spoofed, or a co-hosted mapper behind a bridge) */
        ADD(ev_discover(0, ST_OWN, ST_BR, 0x1234, 1)); ADD(ev_discover(1, ST_OWN, ST_OWN, 0x1234, 1));
    } else {
        static const uint16_t gens[] = {0, 1, 0x00FF, 0xFF00, 0x1234, 0xFFFF}; static const uint16_t seqs[] = {0, 1, 0xABCD};
        static const int sts[] = {ST_M1, ST_M2, ST_M3};
        for (int tos = 0; tos < 2; tos++) for (int m = 0; m < 3; m++) for (int br = 0; br < 2; br++)
            for (unsigned g = 0; g < 6; g++) for (unsigned s = 0; s < 3; s++)
                ADD(ev_discover((uint8_t)tos, sts[m], br ? ST_BR : sts[m], gens[g], seqs[s]));
        /* a Discover whose station list names us (acknowledging form) */
        pev d = ev_discover(0, ST_M1, ST_M1, 0x0102, 2); d.nsta = 3; d.own_pos = 1; ADD(d);
        /* a Discover that was relayed back onto the segment by a hairpinning bridge port / seen through a packet socket
         * next to a co-hosted mapper: its Ethernet source is the receiving interface's own address */
        ADD(ev_discover(0, ST_M1, ST_OWN, 0x1234, 1)); ADD(ev_discover(1, ST_M1, ST_OWN, 0x1234, 1));
    }
    ADD(ev_reset(0, ST_M1)); ADD(ev_reset(1, ST_M1));
    ADD(ev_hello(0, ST_PEER, 0x3412));
    if (variant == SIGMA_DISC) { ADD(ev_hello(1, ST_PEER, 0x3412)); ADD(ev_hello(0, ST_M2, 0x0001)); ADD(ev_hello(0, ST_PEER, 0xFF00)); }
    ADD(ev_probe(0x04, 0, ST_S0, ST_S0, ST_OWN, ST_OWN));
    if (variant == SIGMA_P) {
        ADD(ev_probe(0x03, 0, ST_S0, ST_S0, ST_OWN, ST_OWN));
        ADD(ev_probe(0x04, 0, ST_S1, ST_BR, ST_OWN, ST_OWN));
        ADD(ev_probe(0x03, 0, ST_S1, ST_BR, ST_OWN, ST_OWN));
        ADD(ev_probe(0x04, 0, ST_S0, ST_S0, ST_PEER, ST_PEER));
        ADD(ev_probe(0x03, 0, ST_S0, ST_S0, ST_PEER, ST_OWN));
    }
    ADD(ev_emit1(0, ST_M1, ST_M1, 7, 1, 0, ST_S0, ST_PEER));
    if (variant == SIGMA_P) {
        pev e = ev_emit1(0, ST_M1, ST_M1, 8, 1, 1, ST_S0, ST_PEER);
        e.nd = 2; e.d[1].type = 0; e.d[1].pause = 0; e.d[1].src = ST_OWN; e.d[1].dst = ST_S1; ADD(e);
        e = ev_emit1(0, ST_M2, ST_BR, 0xFFFE, 0, 255, ST_OWN, ST_BC);
        e.nd = 3; e.d[1].type = 1; e.d[1].pause = 7; e.d[1].src = ST_S1; e.d[1].dst = ST_PEER;
        e.d[2].type = 0xFF; e.d[2].pause = 1; e.d[2].src = ST_S0; e.d[2].dst = ST_PEER; ADD(e);
        ADD(ev_emit1(1, ST_M1, ST_M1, 7, 1, 0, ST_S0, ST_PEER));
        /* an Emit that is not addressed to us at the LLTD level (flooded / broadcast): if it is executed, then with OUR address as real source */
        { pev m = ev_emit1(0, ST_M1, ST_M1, 9, 1, 0, ST_S0, ST_PEER); m.realdst = ST_BC; ADD(m); m.realdst = ST_PEER; m.ethdst = ST_BC; m.d[0].type = 0; ADD(m); }
    }
    ADD(ev_query(0, ST_M1, ST_M1, 2));
    if (variant == SIGMA_P) { ADD(ev_query(0, ST_M2, ST_BR, 0xFFFE)); ADD(ev_query(1, ST_M1, ST_M1, 2)); }
    if (variant == SIGMA_P) { ADD(ev_query(0, ST_M1, ST_M1, 0)); ADD(ev_emit1(0, ST_M1, ST_M1, 0, 1, 0, ST_S0, ST_PEER)); }      /* unsequenced commands (sequence number 0) */
    ADD(ev_qlt(0, ST_M1, ST_M1, 5, 0x0E, 0));
    if (variant == SIGMA_P) {
        ADD(ev_qlt(0, ST_M1, ST_M1, 5, 0x0E, 1000)); ADD(ev_qlt(0, ST_M1, ST_M1, 5, 0x0E, 2600)); ADD(ev_qlt(0, ST_M1, ST_M1, 5, 0x0E, 0xFFFF));
        ADD(ev_qlt(1, ST_M1, ST_M1, 5, 0x0E, 0)); ADD(ev_qlt(1, ST_M2, ST_BR, 6, 0x0E, 500));
        ADD(ev_qlt(0, ST_M1, ST_M1, 5, 0x11, 0)); ADD(ev_qlt(1, ST_M1, ST_M1, 5, 0x11, 4));
        ADD(ev_qlt(0, ST_M1, ST_M1, 5, 0x13, 0)); ADD(ev_qlt(0, ST_M1, ST_M1, 5, 0x13, 63));
        ADD(ev_qlt(0, ST_M1, ST_M1, 5, 0x42, 0)); ADD(ev_qlt(0, ST_M1, ST_M1, 0, 0x0E, 0)); ADD(ev_qlt(1, ST_M1, ST_M1, 0, 0x11, 0));
        /* foreign frames */
        static const uint8_t ftos[] = {2, 3, 0xFF}; static const uint8_t fop[] = {0, 1, 6, 8};
        for (unsigned t = 0; t < 3; t++) for (unsigned o = 0; o < 4; o++) ADD(ev_raw(ftos[t], fop[o], ST_M3, ST_M3));
        static const uint8_t uop[] = {5, 7, 9, 0x0C, 0x0D, 0xFF};
        for (int tos = 0; tos < 2; tos++) for (unsigned o = 0; o < 6; o++) ADD(ev_raw((uint8_t)tos, uop[o], ST_M1, ST_M1));
        ADD(ev_raw(0xEE, 0xF0, ST_ZERO, ST_ZERO));     /* the platform's icon changes */
    }
#undef ADD
    return n;
}
