/* The closed world: deterministic arena allocator, virtual clock, attribute
 * records, port-call trace, fault plan; snapshot/restore/reset of everything
 * dynamic including the core's own writable sections (renamed to core_bss /
 * core_data by objcopy so the linker provides __start_/__stop_ symbols). */
#include "vf.h"

#include <stdarg.h>
#include <stddef.h>
#include <stdlib.h>
#include <string.h>

#include "lltdPort.h"       /* from /repo: keeps the port signatures honest */

vf_world W;
uint64_t vf_clock_origin = 1000000;
uint8_t  vf_trace_bytes[VF_TRACE_BYTES];
/* receive buffers are followed by 1 MiB of zeros so that, in the plain flavour, a walk driven by a
 * wire counter of 0xFFFF stays inside harness memory (the san flavour uses exact heap blocks instead) */
static uint8_t recvbuf[VF_NIFACE][VF_MAXMTU + (1u << 20)];

/* core sections */
extern uint8_t __start_core_bss[]  __attribute__((weak));
extern uint8_t __stop_core_bss[]   __attribute__((weak));
extern uint8_t __start_core_data[] __attribute__((weak));
extern uint8_t __stop_core_data[]  __attribute__((weak));
static uint8_t *core_data_image;    /* pristine copy of core_data taken at init */
static size_t   core_bss_size, core_data_size;

#if defined(__has_feature)
#if __has_feature(address_sanitizer)
#define VF_NOSAN __attribute__((no_sanitize("address")))
#endif
#endif
#ifndef VF_NOSAN
#ifdef __SANITIZE_ADDRESS__
#define VF_NOSAN __attribute__((no_sanitize_address))
#else
#define VF_NOSAN
#endif
#endif

VF_NOSAN static void raw_copy(uint8_t *d, const uint8_t *s, size_t n) { for (size_t i = 0; i < n; i++) d[i] = s[i]; }
VF_NOSAN static void raw_zero(uint8_t *d, size_t n) { for (size_t i = 0; i < n; i++) d[i] = 0; }

/* ------------------------------------------------------------ allocator */
#ifndef VF_SAN
/* arena: [hdr 16][payload, capacity = multiple of 8][canary 8] ... ; LIFO free lists per capacity.
 * hdr.size is the CAPACITY of the block (fixed for its lifetime: the arena walk depends on it); while the block is live
 * hdr.next_free holds the exact size requested.  A request is served from the list of its own rounded size, else from the
 * smallest larger free block (bounded waste), else from the break.  The slack between the exact size and the capacity
 * carries a pattern that is verified when the block is freed and by vf_check_canaries: an overflow by a single byte is seen. */
typedef struct blk { uint32_t size; uint32_t state; uint32_t serial; uint32_t next_free; } blk;
#define BLK_LIVE 0x4c495645u
#define BLK_FREE 0x46524545u
#define CANARY   0xC0FFEE11DEADBEA7ull
#define SLACK    ((uint8_t)(W.fill ^ 0x6E))      /* depends on the fill pattern: a read past the exact size differs between the two fill runs of C02 */
#define NCLASS   512
static struct {
    uint32_t brk;
    uint32_t serial;
    uint32_t nclass;
    struct { uint32_t size, head; } cls[NCLASS];   /* head: offset+1 of first free block, 0 none */
} AH;
static uint8_t arena[VF_ARENA_SIZE] __attribute__((aligned(16)));

static inline uint32_t blk_span(uint32_t cap) { return 16 + cap + 8; }
#define BLK_EXACT(b) ((b)->next_free)

static void *blk_take(uint32_t off, uint32_t sz) {
    blk *b = (blk *)(arena + off);
    b->state = BLK_LIVE; b->serial = AH.serial++; b->next_free = sz;
    memset(arena + off + 16, W.fill, sz);
    memset(arena + off + 16 + sz, SLACK, b->size - sz);
    return arena + off + 16;
}
static void *arena_alloc(size_t size) {
    uint32_t sz = (uint32_t)size, rsz = (sz + 7u) & ~7u;
    int best = -1;
    for (uint32_t c = 0; c < AH.nclass; c++) {
        if (!AH.cls[c].head || AH.cls[c].size < rsz) continue;
        if (AH.cls[c].size == rsz) { best = (int)c; break; }
        if (AH.cls[c].size <= 2 * rsz + 256 && (best < 0 || AH.cls[c].size < AH.cls[best].size)) best = (int)c;
    }
    if (best >= 0) {
        uint32_t off = AH.cls[best].head - 1;
        AH.cls[best].head = ((blk *)(arena + off))->next_free;
        return blk_take(off, sz);
    }
    uint32_t span = blk_span(rsz);
    if (size > VF_ARENA_SIZE || AH.brk + span > VF_ARENA_SIZE) vf_harness_error("arena exhausted (size %zu, brk %u)", size, AH.brk);
    uint32_t off = AH.brk; AH.brk += span;
    blk *b = (blk *)(arena + off);
    b->size = rsz;
    uint64_t can = CANARY; memcpy(arena + off + 16 + rsz, &can, 8);
    return blk_take(off, sz);
}

static int slack_bad(const blk *b, uint32_t off) {
    for (uint32_t i = BLK_EXACT(b); i < b->size; i++) if (arena[off + 16 + i] != SLACK) return 1;
    return 0;
}
static int arena_free(void *p) {
    uint8_t *q = (uint8_t *)p;
    if (q < arena + 16 || q >= arena + AH.brk) return -1;
    uint32_t off = (uint32_t)(q - arena) - 16;
    if (off & 7u) return -1;
    blk *b = (blk *)(arena + off);
    if (b->state != BLK_LIVE) return -2;                 /* not a block start, or already freed */
    if (off + blk_span(b->size) > AH.brk) return -1;
    uint64_t can; memcpy(&can, arena + off + 16 + b->size, 8);
    if (can != CANARY || slack_bad(b, off)) W.led.canary_bad++;
    uint32_t exact = BLK_EXACT(b);
    b->state = BLK_FREE;
    /* poison freed payload so a use-after-free read changes behaviour visibly */
    memset(arena + off + 16, (uint8_t)(W.fill ^ 0x7A), b->size);
    uint32_t c;
    for (c = 0; c < AH.nclass; c++) if (AH.cls[c].size == b->size) break;
    if (c == AH.nclass) {
        /* a new capacity: take a fresh slot, else recycle a slot whose free list is empty; if every slot is in use the
         * block stays unused until the next world reset */
        if (AH.nclass < NCLASS) { AH.cls[c].size = b->size; AH.cls[c].head = 0; AH.nclass++; }
        else { for (c = 0; c < NCLASS; c++) if (!AH.cls[c].head) break; if (c < NCLASS) AH.cls[c].size = b->size; }
    }
    if (c < NCLASS) { b->next_free = AH.cls[c].head; AH.cls[c].head = off + 1; } else b->next_free = 0;
    return (int)exact;
}

int vf_check_canaries(void) {
    int bad = 0;
    for (uint32_t o = 0; o < AH.brk;) {
        blk *b = (blk *)(arena + o);
        if (b->state != BLK_LIVE && b->state != BLK_FREE) return 1000000;
        uint64_t can; memcpy(&can, arena + o + 16 + b->size, 8);
        if (can != CANARY) bad++;
        if (b->state == BLK_LIVE && slack_bad(b, o)) bad++;
        o += blk_span(b->size);
    }
    return bad + (int)W.led.canary_bad;
}

void vf_each_live(vf_block_cb cb, void *arg) {
    for (uint32_t o = 0; o < AH.brk;) {
        blk *b = (blk *)(arena + o);
        if (b->state == BLK_LIVE) cb(arena + o + 16, BLK_EXACT(b), b->serial, arg);
        o += blk_span(b->size);
    }
}
uint32_t vf_alloc_serial(void) { return AH.serial; }

/* memory the core never obtained (beyond the break) also carries the fill pattern: a read past the end of a block
 * then differs between the two fill runs of C02 */
static void heap_reset(void) { size_t n = AH.brk + 131072 < VF_ARENA_SIZE ? AH.brk + 131072 : VF_ARENA_SIZE; memset(arena, W.fill, n); memset(&AH, 0, sizeof AH); }

#else /* VF_SAN: libc malloc (ASan redzones), ledger table */
#define LT_MAX 65536
static struct { void *p; size_t size; uint32_t serial; } LT[LT_MAX];
static uint32_t LTn, LTserial;
static void *arena_alloc(size_t size) {
    void *p = malloc(size ? size : 1);
    if (!p) vf_harness_error("libc malloc failed");
    memset(p, W.fill, size);
    if (LTn == LT_MAX) vf_harness_error("ledger table full");
    LT[LTn].p = p; LT[LTn].size = size; LT[LTn].serial = LTserial++; LTn++;
    return p;
}
static int arena_free(void *p) {
    for (uint32_t i = LTn; i-- > 0;) if (LT[i].p == p) {
        int sz = (int)LT[i].size; LT[i] = LT[--LTn]; free(p); return sz;
    }
    free(p);   /* let ASan diagnose it (double free / foreign pointer) */
    return -1;
}
int vf_check_canaries(void) { return 0; }
void vf_each_live(vf_block_cb cb, void *arg) { for (uint32_t i = 0; i < LTn; i++) cb(LT[i].p, LT[i].size, LT[i].serial, arg); }
uint32_t vf_alloc_serial(void) { return LTserial; }
static void heap_reset(void) { for (uint32_t i = 0; i < LTn; i++) free(LT[i].p); LTn = 0; LTserial = 0; }
#endif

#ifndef VF_SAN
void vf_arena_range(uintptr_t *lo, uintptr_t *hi) { *lo = (uintptr_t)arena; *hi = (uintptr_t)arena + VF_ARENA_SIZE; }
#endif
void vf_core_sections(uintptr_t *blo, uintptr_t *bhi, uintptr_t *dlo, uintptr_t *dhi) {
    *blo = (uintptr_t)__start_core_bss; *bhi = (uintptr_t)__stop_core_bss; *dlo = (uintptr_t)__start_core_data; *dhi = (uintptr_t)__stop_core_data;
}
size_t vf_core_size(void) { return core_bss_size + core_data_size; }
void vf_core_save(uint8_t *out) { raw_copy(out, __start_core_bss, core_bss_size); if (core_data_size) raw_copy(out + core_bss_size, __start_core_data, core_data_size); }
void vf_core_load(const uint8_t *in) { raw_copy(__start_core_bss, in, core_bss_size); if (core_data_size) raw_copy(__start_core_data, in + core_bss_size, core_data_size); }
void (*vf_on_free)(void *p, size_t size);       /* tsanabi: forget access history of a freed block */
void (*vf_on_alloc)(void *p, size_t size);
uint32_t vf_live_blocks(void) { return W.led.live_blocks; }
uint64_t vf_live_bytes(void) { return W.led.live_bytes; }

/* ------------------------------------------------------------ fault plan */
static int fp_point(int kind) {
    vf_faultplan *fp = &W.fp;
    uint32_t occ = fp->kind_count[kind]++;
    if (!fp->active) return 0;
    uint32_t n = fp->npoints++;
    if (n < VF_FP_MAXPOINTS) fp->kind[n] = (uint8_t)kind;
    int fail = 0;
    for (int i = 0; i < fp->ndev; i++) if (fp->dev[i] == n) fail = 1;
    if (fp->sticky_kind == kind && occ >= fp->sticky_from) fail = 1;
    if (fp->one_kind == kind && occ == fp->one_n) fail = 1;
    if (fail) fp->took_effect++;
    return fail;
}

#ifdef VF_TSANABI
void vf_tsan_range(const void *p, size_t n, int is_write, void *pc);   /* mc/tsan_hooks.c: scheduling point + race record */
#define TS_RANGE(p, n, w) vf_tsan_range((p), (n), (w), __builtin_return_address(0))
#else
#define TS_RANGE(p, n, w) ((void)0)
#endif
/* ------------------------------------------------------------ port API */
uint64_t lltd_port_monotonic_seconds(void) { return W.now_ms / 1000; }
uint64_t lltd_port_monotonic_milliseconds(void) { return W.now_ms; }

void *lltd_port_malloc(size_t size) {
    if (fp_point(VF_F_MALLOC)) return NULL;
    void *p = arena_alloc(size);
    if (vf_on_alloc) vf_on_alloc(p, size);
    W.led.allocs++; W.led.live_blocks++; W.led.live_bytes += size;
    if (W.led.live_blocks > W.led.hw_blocks) W.led.hw_blocks = W.led.live_blocks;
    if (W.led.live_bytes > W.led.hw_bytes) W.led.hw_bytes = W.led.live_bytes;
    return p;
}
void lltd_port_free(void *ptr) {
    if (!ptr) return;
    int sz = arena_free(ptr);
    if (sz >= 0 && vf_on_free) vf_on_free(ptr, (size_t)sz);
    if (sz < 0) { W.led.bad_free++; return; }
    W.led.frees++; W.led.live_blocks--; W.led.live_bytes -= (uint64_t)sz;
}
void *lltd_port_memset(void *ptr, int value, size_t num) { TS_RANGE(ptr, num, 1); return memset(ptr, value, num); }
void *lltd_port_memcpy(void *d, const void *s, size_t n) { TS_RANGE(s, n, 0); TS_RANGE(d, n, 1); return memcpy(d, s, n); }
int   lltd_port_memcmp(const void *a, const void *b, size_t n) { TS_RANGE(a, n, 0); TS_RANGE(b, n, 0); return memcmp(a, b, n); }

static void trace_add(uint8_t kind, int iface, int result, const void *bytes, uint32_t len) {
    if (W.ntrace >= VF_TRACE_MAX) { W.trace_overflow++; return; }
    vf_trec *t = &W.trace[W.ntrace++];
    t->kind = kind; t->iface = (uint8_t)iface; t->result = (int8_t)result; t->len = len; t->t_ms = W.now_ms;
    t->off = W.trace_used;
    if (bytes) {
        if (W.trace_used + len > VF_TRACE_BYTES) { W.trace_overflow++; t->len = 0; return; }
        memcpy(vf_trace_bytes + W.trace_used, bytes, len);
        W.trace_used += len;
    }
}

int vf_cur_iface;      /* interface whose frame is being handled (attributes sleeps in two-interface harnesses) */
void lltd_port_sleep_ms(uint32_t ms) { trace_add(VF_T_SLEEP, vf_cur_iface, 0, NULL, ms); W.now_ms += ms; }

int lltd_port_send_frame(void *iface_ctx, const void *frame, size_t frame_len) {
    int idx = vf_ctx_index(iface_ctx);
    int fail = fp_point(VF_F_SEND);
    W.sends_total++;
    /* reading the bytes here makes an over-long length visible to ASan / the canaries */
    trace_add(VF_T_SEND, idx < 0 ? 255 : idx, fail ? -1 : 0, frame, (uint32_t)frame_len);
    return fail ? -1 : 0;
}

void *vf_ctx(int i) { return &W.iface[i]; }
int vf_ctx_index(const void *ctx) {
    for (int i = 0; i < VF_NIFACE; i++) if (ctx == (const void *)&W.iface[i]) return i;
    return -1;
}
static vf_iface *IF(void *ctx) { int i = vf_ctx_index(ctx); return i < 0 ? NULL : &W.iface[i]; }

int lltd_port_get_mtu(void *ctx, size_t *out) {
    vf_iface *f = IF(ctx);
    if (!f || !out) return -1;
    if (fp_point(VF_F_MTU) || (f->fail & VF_G_MTU)) return -1;
    TS_RANGE(out, sizeof *out, 1); *out = W.env.mtu_alt ? (f->mtu == 1500 ? 9216 : 1500) : f->mtu; return 0;
}
int lltd_port_get_icon_image(void **out_data, size_t *out_size) {
    if (out_data) *out_data = NULL;
    if (out_size) *out_size = 0;
    if (!out_data || !out_size) return -1;
    if (fp_point(VF_F_ICON) || (W.host.fail & VF_G_ICON) || !W.host.icon_ok) { *out_size = W.host.icon_size; return -1; }   /* dirty failure: size set, no data */
    size_t isz = W.env.icon_epoch == 2 ? 0 : W.host.icon_size;      /* environment state 2: the platform has an empty icon */
    void *p = lltd_port_malloc(isz ? isz : 1);
    if (!p) return -1;
    memcpy(p, W.host.icon, isz);
    for (size_t i = 0; i < isz; i += 97) ((uint8_t *)p)[i] ^= (uint8_t)(W.env.icon_epoch * 0x3B);
    *out_data = p; *out_size = isz; return 0;
}
int lltd_port_get_friendly_name(void **out_data, size_t *out_size) {
    if (out_data) *out_data = NULL;
    if (out_size) *out_size = 0;
    if (!out_data || !out_size) return -1;
    if (fp_point(VF_F_FNAME) || (W.host.fail & VF_G_FNAME) || !W.host.fname_ok) { *out_size = W.host.fname_size; return -1; }   /* as os/darwin/lltd_port.c: size computed, allocation failed */
    void *p = lltd_port_malloc(W.host.fname_size ? W.host.fname_size : 1);
    if (!p) return -1;
    memcpy(p, W.host.fname, W.host.fname_size);
    *out_data = p; *out_size = W.host.fname_size; return 0;
}
size_t lltd_port_get_hostname(void *dst, size_t dst_len) {
    if (!dst || dst_len == 0) return 0;
    if (fp_point(VF_F_HOSTNAME) || (W.host.fail & VF_G_HOSTNAME)) return 0;
    size_t n = W.host.hostname_len < dst_len ? W.host.hostname_len : dst_len;
    TS_RANGE(dst, n, 1); memcpy(dst, W.host.hostname, n);
    return W.host.hostname_ret_full ? W.host.hostname_len : n;
}
size_t lltd_port_get_support_url(void *dst, size_t dst_len) { (void)dst; (void)dst_len; return 0; }
int lltd_port_get_upnp_uuid(uint8_t out_uuid[16]) { (void)out_uuid; return -1; }
size_t lltd_port_get_hw_id(void *dst, size_t dst_len) {
    if (!dst || dst_len == 0) return 0;
    if (fp_point(VF_F_HWID) || (W.host.fail & VF_G_HWID)) return 0;
    size_t n = W.host.hwid_len < dst_len ? W.host.hwid_len : dst_len;
    TS_RANGE(dst, n, 1); memcpy(dst, W.host.hwid, n);
    return n;
}
int lltd_port_get_mac_address(void *ctx, ethernet_address_t *out) {
    vf_iface *f = IF(ctx);
    if (!f || !out) return -1;
    if (fp_point(VF_F_MAC) || (f->fail & VF_G_MAC)) return -1;
    TS_RANGE(out, 6, 1); memcpy(out->a, f->mac, 6); return 0;
}
uint32_t lltd_port_get_characteristics_flags(void *ctx) {
    vf_iface *f = IF(ctx);
    if (!f || (f->fail & VF_G_FLAGS)) return 0;
    return f->flags;
}
#define GETTER(bit) (fp_point(VF_F_GETTER) || (f->fail & (bit)))
int lltd_port_get_if_type(void *ctx, uint32_t *out) {
    vf_iface *f = IF(ctx); if (!f || !out) return -1;
    if (GETTER(VF_G_IFTYPE)) return -1;
    TS_RANGE(out, 4, 1); *out = f->iftype; return 0;
}
int lltd_port_get_ipv4_address(void *ctx, uint32_t *out) {
    vf_iface *f = IF(ctx); if (!f || !out) return -1;
    if (GETTER(VF_G_IPV4)) return -1;
    TS_RANGE(out, 4, 1); *out = f->ipv4_be; return 0;
}
int lltd_port_get_ipv6_address(void *ctx, uint8_t out[16]) {
    vf_iface *f = IF(ctx); if (!f || !out) return -1;
    if (GETTER(VF_G_IPV6)) return -1;
    TS_RANGE(out, 16, 1); memcpy(out, f->ipv6, 16); return 0;
}
int lltd_port_get_link_speed_100bps(void *ctx, uint32_t *out) {
    vf_iface *f = IF(ctx); if (!f || !out) return -1;
    if (GETTER(VF_G_SPEED)) return -1;
    TS_RANGE(out, 4, 1); *out = f->speed; return 0;
}
int lltd_port_get_wifi_mode(void *ctx, uint8_t *out) {
    vf_iface *f = IF(ctx); if (!f || !out) return -1;
    if (!f->wifi || (f->fail & VF_G_WIFIMODE)) return -1;
    *out = f->wifi_mode; return 0;
}
int lltd_port_get_bssid(void *ctx, uint8_t out[6]) {
    vf_iface *f = IF(ctx); if (!f || !out) return -1;
    if (!f->wifi || GETTER(VF_G_BSSID)) return -1;
    TS_RANGE(out, 6, 1); memcpy(out, f->bssid, 6); return 0;
}
size_t lltd_port_get_ssid(void *ctx, void *dst, size_t dst_len) {
    vf_iface *f = IF(ctx); if (!f || !dst) return 0;
    if (!f->wifi || GETTER(VF_G_SSID)) return 0;
    size_t n = f->ssid_len < dst_len ? f->ssid_len : dst_len;
    TS_RANGE(dst, n, 1); memcpy(dst, f->ssid, n);
    return f->ssid_ret_full ? f->ssid_len : n;
}
int lltd_port_get_wifi_max_rate_0_5mbps(void *ctx, uint16_t *out) {
    vf_iface *f = IF(ctx); if (!f || !out) return -1;
    if (!f->wifi || GETTER(VF_G_RATE)) return -1;
    *out = f->rate; return 0;
}
int lltd_port_get_wifi_rssi_dbm(void *ctx, int8_t *out) {
    vf_iface *f = IF(ctx); if (!f || !out) return -1;
    if (!f->wifi || GETTER(VF_G_RSSI)) return -1;
    *out = f->rssi; return 0;
}
int lltd_port_get_wifi_phy_medium(void *ctx, uint32_t *out) {
    vf_iface *f = IF(ctx); if (!f || !out) return -1;
    if (!f->wifi) return -1;
    *out = f->phy; return 0;
}
static char logbuf[1024];
void lltd_port_log_debug(const char *fmt, ...) { va_list ap; va_start(ap, fmt); vsnprintf(logbuf, sizeof logbuf, fmt, ap); va_end(ap); }
void lltd_port_log_warning(const char *fmt, ...) { va_list ap; va_start(ap, fmt); vsnprintf(logbuf, sizeof logbuf, fmt, ap); va_end(ap); }

/* ------------------------------------------------------------ world */
uint8_t vf_station[64][6] = {
    [ST_OWN]  = {0x02, 0x11, 0x22, 0x33, 0x44, 0x55},
    [ST_OWN2] = {0x02, 0x11, 0x22, 0x33, 0x44, 0x56},
    [ST_M1]   = {0x00, 0x15, 0x5d, 0xaa, 0xbb, 0x01},
    [ST_M2]   = {0x00, 0x15, 0x5d, 0xaa, 0xbb, 0x02},   /* differs from M1 in the last byte  */
    [ST_M3]   = {0x10, 0x15, 0x5d, 0xaa, 0xbb, 0x01},   /* differs from M1 in the first byte */
    [ST_BR]   = {0x00, 0x0c, 0x29, 0x01, 0x02, 0x03},
    [ST_S0]   = {0x00, 0x50, 0x56, 0x00, 0x00, 0x10},
    [ST_S1]   = {0x00, 0x50, 0x56, 0x00, 0x00, 0x11},
    [ST_PEER] = {0x02, 0x11, 0x22, 0x33, 0x44, 0x54},   /* differs from OWN in the last byte */
    [ST_BC]   = {0xff, 0xff, 0xff, 0xff, 0xff, 0xff},
    [ST_ZERO] = {0, 0, 0, 0, 0, 0},
};
const char *vf_station_name(int s) {
    static const char *n[] = {"OWN", "OWN2", "M1", "M2", "M3", "BR", "S0", "S1", "PEER", "BC", "ZERO", "SIBLING-IFACE"};
    return (s >= 0 && s < ST_N) ? n[s] : "?";
}

static uint8_t icon_default[4096];
static const uint8_t fname_default[] = { 'V', 0, 'e', 0, 'r', 0, 'i', 0, 'f', 0 };

void vf_trace_clear(void) { W.ntrace = 0; W.trace_used = 0; W.trace_overflow = 0; W.sends_total = 0; }

void vf_world_init(size_t mtu, int wifi, uint8_t fill) {
    memset(&W, 0, sizeof W);
    core_bss_size = (size_t)(__stop_core_bss - __start_core_bss);
    core_data_size = (size_t)(__stop_core_data - __start_core_data);
    if (core_data_size && !core_data_image) {
        core_data_image = malloc(core_data_size);
        raw_copy(core_data_image, __start_core_data, core_data_size);
    }
    for (int i = 0; i < VF_NIFACE; i++) {
        vf_iface *f = &W.iface[i];
        f->id = i;
        memcpy(f->mac, vf_station[i == 0 ? ST_OWN : ST_OWN2], 6);
        if (i >= 2) f->mac[4] = (uint8_t)(0x60 + i);        /* further interfaces: distinct addresses */
        f->flags = 0x2000; f->iftype = 6;
        f->ipv4_be = 0x0a01a8c0u + ((uint32_t)i << 24);
        for (int k = 0; k < 16; k++) f->ipv6[k] = (uint8_t)(0xfe - k * 7 + i);
        f->speed = 10000000; f->mtu = mtu;
        f->wifi = wifi; f->wifi_mode = 1;
        memcpy(f->bssid, (uint8_t[]){0x0a, 0x0b, 0x0c, 0x0d, 0x0e, (uint8_t)(0x0f + i)}, 6);
        memcpy(f->ssid, "verif-net", 9); f->ssid_len = 9;
        f->rate = 108; f->rssi = -61; f->phy = 71;
        f->recv = recvbuf[i];
    }
    memcpy(W.host.hostname, "verifhost", 9); W.host.hostname_len = 9;
    for (size_t i = 0; i < sizeof icon_default; i++) icon_default[i] = (uint8_t)(i * 131 + (i >> 8) * 17 + 7);
    W.host.icon = icon_default; W.host.icon_size = 2600; W.host.icon_ok = 1;
    W.host.fname = fname_default; W.host.fname_size = sizeof fname_default; W.host.fname_ok = 1;
    static const uint8_t hw[] = { 'H', 0, 'W', 0, '-', 0, '1', 0 };
    memcpy(W.host.hwid, hw, sizeof hw); W.host.hwid_len = sizeof hw;
    W.fill = fill;
    W.fp.sticky_kind = -1; W.fp.one_kind = -1;
    vf_world_reset();
}

/* a platform whose string attributes all have their maximal legal length: 64-byte hardware ID without terminator (what
 * os/darwin/lltd_port.c makes of a UUID), a machine name longer than a Hello may carry, 32-byte SSIDs */
void vf_rich_platform(void) {
    for (size_t i = 0; i < 64; i++) W.host.hwid[i] = (uint8_t)('A' + (i / 2) % 26) * (uint8_t)(1 - (i & 1));
    W.host.hwid_len = 64;
    static const char longname[] = "a-rather-long-machine-name-of-fifty-one-characters.";
    memcpy(W.host.hostname, longname, sizeof longname - 1); W.host.hostname_len = sizeof longname - 1;
    for (int i = 0; i < VF_NIFACE; i++) { memcpy(W.iface[i].ssid, "an-ssid-of-the-maximal-length-32", 32); W.iface[i].ssid_len = 32; }
}

void vf_world_reset(void) {
    heap_reset();
    if (core_bss_size) raw_zero(__start_core_bss, core_bss_size);
    if (core_data_size) raw_copy(__start_core_data, core_data_image, core_data_size);
    W.now_ms = vf_clock_origin;
    memset(&W.env, 0, sizeof W.env);
    memset(&W.led, 0, sizeof W.led);
    vf_faultplan keep = W.fp;
    memset(&W.fp, 0, sizeof W.fp);
    W.fp.sticky_kind = -1; W.fp.one_kind = -1;
    (void)keep;
    for (int i = 0; i < VF_NIFACE; i++) { memset(recvbuf[i], 0, VF_MAXMTU + 64); W.iface[i].recv_prev_len = 0; }
    W.cur_request = 0; W.in_tick = 0;
    vf_trace_clear();
}

uint64_t vf_trace_hash(void) {
    uint64_t h = 0x1234;
    for (uint32_t i = 0; i < W.ntrace; i++) {
        vf_trec *t = &W.trace[i];
        uint32_t hdr[4] = { t->kind, t->iface, t->len, (uint32_t)(uint8_t)t->result };
        h = vf_hash64(hdr, sizeof hdr, h);
        if (t->kind == VF_T_SEND) h = vf_hash64(vf_trace_bytes + t->off, t->len, h);
    }
    return h;
}

void vf_trace_print(FILE *f) {
    for (uint32_t i = 0; i < W.ntrace; i++) {
        vf_trec *t = &W.trace[i];
        if (t->kind == VF_T_SLEEP) { fprintf(f, "    sleep %u ms\n", t->len); continue; }
        fprintf(f, "    send if%u len=%u rc=%d:", t->iface, t->len, t->result);
        for (uint32_t k = 0; k < t->len && k < 64; k++) fprintf(f, " %02x", vf_trace_bytes[t->off + k]);
        if (t->len > 64) fprintf(f, " ...");
        fprintf(f, "\n");
    }
}


/* ------------------------------------------------------- snapshot / canon */
#ifndef VF_SAN
vf_snap *vf_snapshot(const void *model, size_t model_size) {
    size_t ahn = offsetof(__typeof__(AH), cls) + (size_t)AH.nclass * sizeof AH.cls[0];      /* only the size classes in use */
    size_t n = ahn + AH.brk + core_bss_size + core_data_size + sizeof W.now_ms + sizeof W.led + sizeof W.env + model_size;
    vf_snap *s = malloc(sizeof *s + n);
    if (!s) vf_harness_error("out of memory for snapshot");
    s->size = (uint32_t)n;
    uint8_t *p = s->data;
    memcpy(p, &AH, ahn); p += ahn;
    memcpy(p, arena, AH.brk); p += AH.brk;
    memcpy(p, __start_core_bss, core_bss_size); p += core_bss_size;
    if (core_data_size) { memcpy(p, __start_core_data, core_data_size); p += core_data_size; }
    memcpy(p, &W.now_ms, sizeof W.now_ms); p += sizeof W.now_ms;
    memcpy(p, &W.led, sizeof W.led); p += sizeof W.led;
    memcpy(p, &W.env, sizeof W.env); p += sizeof W.env;
    if (model_size) memcpy(p, model, model_size);
    return s;
}
void vf_restore(const vf_snap *s, void *model, size_t model_size) {
    const uint8_t *p = s->data;
    memcpy(&AH, p, offsetof(__typeof__(AH), cls)); p += offsetof(__typeof__(AH), cls);
    memcpy(AH.cls, p, (size_t)AH.nclass * sizeof AH.cls[0]); p += (size_t)AH.nclass * sizeof AH.cls[0];
    memcpy(arena, p, AH.brk); p += AH.brk;
    memcpy(__start_core_bss, p, core_bss_size); p += core_bss_size;
    if (core_data_size) { memcpy(__start_core_data, p, core_data_size); p += core_data_size; }
    memcpy(&W.now_ms, p, sizeof W.now_ms); p += sizeof W.now_ms;
    memcpy(&W.led, p, sizeof W.led); p += sizeof W.led;
    memcpy(&W.env, p, sizeof W.env); p += sizeof W.env;
    if (model_size) memcpy(model, p, model_size);
}

/* canonical serialisation of the heap graph reachable from the core's sections */
static uint32_t *cn_index; static uint32_t cn_nblocks;       /* block offsets */
static int32_t  *cn_ord;                                     /* ordinal per block, -1 unseen */
static uint32_t *cn_queue; static uint32_t cn_qn;
static size_t    cn_cap_blocks;

static int find_block(uint64_t v) {                /* index of live block containing address v, or -1 */
    uint64_t base = (uint64_t)(uintptr_t)arena;
    if (v < base || v >= base + AH.brk) return -1;
    uint32_t off = (uint32_t)(v - base);
    uint32_t lo = 0, hi = cn_nblocks;
    while (hi - lo > 1) { uint32_t mid = (lo + hi) / 2; if (cn_index[mid] <= off) lo = mid; else hi = mid; }
    blk *b = (blk *)(arena + cn_index[lo]);
    if (b->state != BLK_LIVE) return -1;
    if (off < cn_index[lo] + 16 || off > cn_index[lo] + 16 + BLK_EXACT(b)) return -1;
    return (int)lo;
}

static size_t emit_region(const uint8_t *p, size_t n, uint8_t *out, size_t pos, size_t cap) {
    size_t i = 0;
    while (i < n) {
        if (i + 8 <= n) {
            uint64_t v; memcpy(&v, p + i, 8);
            int bi = find_block(v);
            if (bi >= 0) {
                if (cn_ord[bi] < 0) { cn_ord[bi] = (int32_t)cn_qn; cn_queue[cn_qn++] = (uint32_t)bi; }
                uint32_t rel = (uint32_t)(v - (uint64_t)(uintptr_t)(arena + cn_index[bi] + 16));
                if (pos + 10 > cap) vf_harness_error("canon buffer too small");
                out[pos++] = 0xFE; out[pos++] = 0xED;
                uint32_t o = (uint32_t)cn_ord[bi];
                memcpy(out + pos, &o, 4); pos += 4;
                memcpy(out + pos, &rel, 4); pos += 4;
                i += 8; continue;
            }
        }
        size_t step = (n - i >= 2) ? 2 : 1;
        if (pos + 2 > cap) vf_harness_error("canon buffer too small");
        out[pos++] = p[i]; if (step == 2) out[pos++] = p[i + 1];
        i += step;
    }
    return pos;
}

size_t vf_canon(uint8_t *out, size_t cap) {
    /* index blocks */
    uint32_t n = 0;
    for (uint32_t o = 0; o < AH.brk; o += blk_span(((blk *)(arena + o))->size)) n++;
    if (n + 1 > cn_cap_blocks) {
        cn_cap_blocks = (n + 1) * 2 + 64;
        cn_index = realloc(cn_index, cn_cap_blocks * 4);
        cn_ord = realloc(cn_ord, cn_cap_blocks * 4);
        cn_queue = realloc(cn_queue, cn_cap_blocks * 4);
    }
    cn_nblocks = 0;
    for (uint32_t o = 0; o < AH.brk; o += blk_span(((blk *)(arena + o))->size)) { cn_ord[cn_nblocks] = -1; cn_index[cn_nblocks++] = o; }
    cn_qn = 0;
    size_t pos = 0;
    memcpy(out, &W.env, sizeof W.env); pos = sizeof W.env;
    pos = emit_region(__start_core_bss, core_bss_size, out, pos, cap);
    if (core_data_size) pos = emit_region(__start_core_data, core_data_size, out, pos, cap);
    uint32_t qi = 0;
    for (;;) {
        for (; qi < cn_qn; qi++) {
            blk *b = (blk *)(arena + cn_index[cn_queue[qi]]);
            if (pos + 6 > cap) vf_harness_error("canon buffer too small");
            out[pos++] = 0xB1; out[pos++] = 0x0C; memcpy(out + pos, &BLK_EXACT(b), 4); pos += 4;
            pos = emit_region(arena + cn_index[cn_queue[qi]] + 16, BLK_EXACT(b), out, pos, cap);
        }
        /* live but unreachable blocks, in address order (can only make the key finer) */
        uint32_t i;
        for (i = 0; i < cn_nblocks; i++) {
            blk *b = (blk *)(arena + cn_index[i]);
            if (b->state == BLK_LIVE && cn_ord[i] < 0) break;
        }
        if (i == cn_nblocks) break;
        if (pos + 2 > cap) vf_harness_error("canon buffer too small");
        out[pos++] = 0x1E; out[pos++] = 0xAF;
        cn_ord[i] = (int32_t)cn_qn; cn_queue[cn_qn++] = i;
    }
    return pos;
}
#else
vf_snap *vf_snapshot(const void *m, size_t n) { (void)m; (void)n; vf_harness_error("snapshot unavailable in san flavour"); }
void vf_restore(const vf_snap *s, void *m, size_t n) { (void)s; (void)m; (void)n; vf_harness_error("restore unavailable in san flavour"); }
size_t vf_canon(uint8_t *out, size_t cap) { (void)out; (void)cap; return 0; }
#endif
