/* Violations, counterexample files, results file, argument parsing. */
#include "vf.h"

#include <stdarg.h>
#include <stdlib.h>
#include <string.h>
#include <time.h>
#include <sys/time.h>
#include <sys/mman.h>
#include <unistd.h>

vf_results R;
vf_args A;
/* memory budget of one exploration process: resident set above the limit -> the engines stop expanding and report the
 * cap "memory" (exhaustive:false) instead of running the sandbox out of memory (a code change that adds monotone
 * counters or time-stamps to the state makes a closure infinite).  VF_MEMLIM_MB overrides (default 3500 quick, 18000 thorough). */
int vf_mem_exceeded(void) {
    static long limit_pages = -1;
    if (limit_pages < 0) { const char *e = getenv("VF_MEMLIM_MB"); long mb = e ? atol(e) : (vf_thorough() ? 18000 : 3500); limit_pages = mb * 256; }
    FILE *f = fopen("/proc/self/statm", "r"); if (!f) return 0;
    long size = 0, res = 0; int n = fscanf(f, "%ld %ld", &size, &res); fclose(f);
    return n == 2 && res > limit_pages;
}
void (*vf_cex_writer)(FILE *f);
/* builds without mc/world.c (the real Linux port / embedded daemon) have no virtual clock: weak default */
__attribute__((weak)) uint64_t vf_clock_origin = 1000000;
int vf_suppress;
const char *vf_cex_extra;      /* optional JSON fragment ("key":value) added to every counterexample file */
uint64_t vf_violation_events;
double vf_first_violation_t;

double vf_now_s(void) { struct timeval tv; gettimeofday(&tv, NULL); return (double)tv.tv_sec + (double)tv.tv_usec * 1e-6; }   /* not clock_gettime: the daemon driver interposes it */

uint64_t vf_hash64(const void *p, size_t n, uint64_t seed) {
    const uint8_t *b = p; uint64_t h = 0xcbf29ce484222325ull ^ (seed * 0x9E3779B97F4A7C15ull);
    size_t i = 0;
    for (; i + 8 <= n; i += 8) { uint64_t v; memcpy(&v, b + i, 8); h ^= v; h *= 0x100000001b3ull; h ^= h >> 29; h *= 0xff51afd7ed558ccdull; }
    for (; i < n; i++) { h ^= b[i]; h *= 0x100000001b3ull; }
    h ^= h >> 33; h *= 0xff51afd7ed558ccdull; h ^= h >> 33; h *= 0xc4ceb9fe1a85ec53ull; h ^= h >> 33;
    return h;
}

void vf_harness_error(const char *fmt, ...) {
    va_list ap; va_start(ap, fmt);
    fprintf(stderr, "HARNESS-ERROR: "); vfprintf(stderr, fmt, ap); fprintf(stderr, "\n");
    va_end(ap);
    exit(3);
}

static void jstr(FILE *f, const char *s) {
    fputc('"', f);
    for (; *s; s++) {
        unsigned char c = (unsigned char)*s;
        if (c == '"' || c == '\\') { fputc('\\', f); fputc(c, f); }
        else if (c < 0x20) fprintf(f, "\\u%04x", c);
        else fputc(c, f);
    }
    fputc('"', f);
}

/* ------------------------------------------------------------ violations */
#define MAXV 256
static struct viol { char sig[200]; char detail[600]; char cex[300]; uint64_t count; } V[MAXV];
static int nV;
int vf_nviolations(void) { return nV; }

/* signatures listed in KNOWN_FINDINGS.txt (passed by bin/vcheck in VF_KNOWN_SIGS, newline separated) are still
 * recorded and reported, but do not count towards "stop exploring soon after the first violation" or pruning */
static int is_known(const char *sig) {
    static const char *k; static int init;
    if (!init) { k = getenv("VF_KNOWN_SIGS"); init = 1; }
    if (!k || !*k) return 0;
    size_t n = strlen(sig); const char *p = k;
    while ((p = strstr(p, sig))) { if ((p == k || p[-1] == '\n') && (p[n] == 0 || p[n] == '\n')) return 1; p += n; }
    return 0;
}
int vf_violation_sink_fd = -1;
extern uint64_t fr_current_idx __attribute__((weak));

void vf_violation(const char *sig, const char *fmt, ...) {
    int i;
    if (vf_suppress) return;
    if (vf_violation_sink_fd >= 0) {           /* forked child: hand the record to the parent */
        char buf[1200]; int o = snprintf(buf, sizeof buf, "%llu\t%s\t", (unsigned long long)(&fr_current_idx ? fr_current_idx : 0), sig);
        va_list ap2; va_start(ap2, fmt); o += vsnprintf(buf + o, sizeof buf - (size_t)o - 2, fmt, ap2); va_end(ap2);
        for (int k = 0; k < o; k++) if (buf[k] == '\n') buf[k] = ' ';
        buf[o++] = '\n';
        if (write(vf_violation_sink_fd, buf, (size_t)o) < 0) _exit(3);
        if (!is_known(sig)) vf_violation_events++;
        return;
    }
    if (!is_known(sig)) { if (!vf_violation_events) vf_first_violation_t = vf_now_s(); vf_violation_events++; }
    for (i = 0; i < nV; i++) if (strcmp(V[i].sig, sig) == 0) { V[i].count++; return; }
    if (nV == MAXV) return;
    struct viol *v = &V[nV];
    snprintf(v->sig, sizeof v->sig, "%s", sig);
    va_list ap; va_start(ap, fmt); vsnprintf(v->detail, sizeof v->detail, fmt, ap); va_end(ap);
    v->count = 1;
    v->cex[0] = 0;
    if (R.cex_dir) {
        snprintf(v->cex, sizeof v->cex, "%s/%s-%s-%d.json", R.cex_dir, R.property, A.mode ? A.mode : "x", nV);
        /* make the name unique per configuration */
        char tag[96]; snprintf(tag, sizeof tag, "m%zu-w%d-f%02x-p%d-a%ld-b%ld", A.mtu, A.wifi, A.fill, A.part, A.a, A.b);
        snprintf(v->cex, sizeof v->cex, "%s/%s-%s-%s-%d.json", R.cex_dir, R.property, A.mode ? A.mode : "x", tag, nV);
        FILE *f = fopen(v->cex, "w");
        if (f) {
            fprintf(f, "{\"property\":"); jstr(f, R.property);
            fprintf(f, ",\"sig\":"); jstr(f, v->sig);
            fprintf(f, ",\"detail\":"); jstr(f, v->detail);
            fprintf(f, ",\"mode\":"); jstr(f, A.mode ? A.mode : "");
            fprintf(f, ",\"tier\":"); jstr(f, A.tier);
            fprintf(f, ",\"mtu\":%zu,\"wifi\":%d,\"fill\":%u,\"part\":%d,\"nparts\":%d,\"a\":%ld,\"b\":%ld,\"depth\":%ld", A.mtu, A.wifi, A.fill, A.part, A.nparts, A.a, A.b, A.depth);
            { extern uint64_t vf_clock_origin; fprintf(f, ",\"clock_origin\":%llu", (unsigned long long)vf_clock_origin); }
            if (vf_cex_extra) fprintf(f, ",%s", vf_cex_extra);
            if (vf_cex_writer) { fprintf(f, ","); vf_cex_writer(f); }
            fprintf(f, "}\n");
            fclose(f);
        }
    }
    nV++;
    if (A.verbose) fprintf(stderr, "violation sig=%s detail=%s\n", v->sig, v->detail);
}

/* ------------------------------------------------------------ outcomes */
#define OC_CAP (1u << 20)
static uint64_t *oc_tab; static uint64_t oc_n;
static uint64_t *oc_n_shared;
void vf_outcome_make_shared(void) {          /* outcomes registered by forked children are seen by the parent */
    uint64_t *t = mmap(NULL, OC_CAP * 8 + 4096, PROT_READ | PROT_WRITE, MAP_SHARED | MAP_ANONYMOUS, -1, 0);
    if (t == MAP_FAILED) vf_harness_error("mmap failed");
    if (oc_tab) memcpy(t, oc_tab, OC_CAP * 8);
    oc_tab = t; oc_n_shared = t + OC_CAP; *oc_n_shared = oc_n;
}
void vf_outcome(uint64_t h) {
    if (!oc_tab) oc_tab = calloc(OC_CAP, 8);
    if (oc_n_shared) oc_n = *oc_n_shared;
    if (oc_n >= OC_CAP / 2) return;
    if (h == 0) h = 1;
    uint64_t i = h & (OC_CAP - 1);
    while (oc_tab[i]) { if (oc_tab[i] == h) return; i = (i + 1) & (OC_CAP - 1); }
    oc_tab[i] = h; oc_n++;
    if (oc_n_shared) *oc_n_shared = oc_n;
}

/* ------------------------------------------------------------ samples / extra */
#define MAXS 24
static char *samples[MAXS]; static int nS;
void vf_sample(const char *fmt, ...) {
    if (nS == MAXS) return;
    char buf[1500]; va_list ap; va_start(ap, fmt); vsnprintf(buf, sizeof buf, fmt, ap); va_end(ap);
    samples[nS++] = strdup(buf);
}
#define MAXX 64
static struct { char key[64]; char val[400]; } X[MAXX]; static int nX;
void vf_extra(const char *key, const char *fmt, ...) {
    int i; for (i = 0; i < nX; i++) if (strcmp(X[i].key, key) == 0) break;
    if (i == MAXX) return;
    if (i == nX) nX++;
    snprintf(X[i].key, sizeof X[i].key, "%s", key);
    va_list ap; va_start(ap, fmt); vsnprintf(X[i].val, sizeof X[i].val, fmt, ap); va_end(ap);
}

void vf_write_results(void) {
    FILE *f = R.out_path ? fopen(R.out_path, "w") : stdout;
    if (!f) vf_harness_error("cannot write %s", R.out_path);
    fprintf(f, "{\"property\":"); jstr(f, R.property);
    fprintf(f, ",\"mode\":"); jstr(f, A.mode ? A.mode : "");
    fprintf(f, ",\"config\":{\"mtu\":%zu,\"wifi\":%d,\"fill\":%u,\"part\":%d,\"nparts\":%d}", A.mtu, A.wifi, A.fill, A.part, A.nparts);
    fprintf(f, ",\"states\":%llu,\"transitions\":%llu,\"evaluations\":%llu", (unsigned long long)R.states, (unsigned long long)R.transitions, (unsigned long long)R.evaluations);
    fprintf(f, ",\"max_depth\":%d,\"fixpoint\":%s,\"exhaustive\":%s", R.max_depth, R.fixpoint ? "true" : "false", R.exhaustive ? "true" : "false");
    fprintf(f, ",\"cap\":"); if (R.cap_hit) jstr(f, R.cap_hit); else fprintf(f, "null");
    if (oc_n_shared) oc_n = *oc_n_shared;
    fprintf(f, ",\"outcomes\":%llu,\"wall_s\":%.3f", (unsigned long long)oc_n, R.wall_s);
    fprintf(f, ",\"violations\":[");
    for (int i = 0; i < nV; i++) {
        fprintf(f, "%s{\"sig\":", i ? "," : ""); jstr(f, V[i].sig);
        fprintf(f, ",\"count\":%llu,\"detail\":", (unsigned long long)V[i].count); jstr(f, V[i].detail);
        fprintf(f, ",\"cex\":"); jstr(f, V[i].cex); fprintf(f, "}");
    }
    fprintf(f, "],\"samples\":[");
    for (int i = 0; i < nS; i++) { fprintf(f, "%s", i ? "," : ""); jstr(f, samples[i]); }
    fprintf(f, "],\"extra\":{");
    for (int i = 0; i < nX; i++) { fprintf(f, "%s", i ? "," : ""); jstr(f, X[i].key); fprintf(f, ":"); jstr(f, X[i].val); }
    fprintf(f, "}}\n");
    if (f != stdout) fclose(f);
}

/* ------------------------------------------------------------ args */
int vf_thorough(void) { return A.tier && strcmp(A.tier, "thorough") == 0; }

void vf_parse_args(int argc, char **argv, const char *property) {
    memset(&A, 0, sizeof A);
    A.mtu = 1500; A.fill = 0xA5; A.tier = "quick"; A.nparts = 1; A.deadline = 0; A.mode = "";
    for (int i = 1; i < argc; i++) {
        const char *k = argv[i]; const char *v = (i + 1 < argc) ? argv[i + 1] : "";
        if (!strcmp(k, "--mtu")) { A.mtu = (size_t)strtoul(v, 0, 0); i++; }
        else if (!strcmp(k, "--wifi")) { A.wifi = atoi(v); i++; }
        else if (!strcmp(k, "--fill")) { A.fill = (unsigned)strtoul(v, 0, 0); i++; }
        else if (!strcmp(k, "--tier")) { A.tier = v; i++; }
        else if (!strcmp(k, "--out")) { A.out = v; i++; }
        else if (!strcmp(k, "--cexdir")) { A.cexdir = v; i++; }
        else if (!strcmp(k, "--replay")) { A.replay = v; i++; }
        else if (!strcmp(k, "--part")) { A.part = atoi(v); i++; }
        else if (!strcmp(k, "--nparts")) { A.nparts = atoi(v); i++; }
        else if (!strcmp(k, "--mode")) { A.mode = v; i++; }
        else if (!strcmp(k, "--depth")) { A.depth = atol(v); i++; }
        else if (!strcmp(k, "--deadline")) { A.deadline = atof(v); i++; }
        else if (!strcmp(k, "--origin")) { extern uint64_t vf_clock_origin; vf_clock_origin = strtoull(v, NULL, 10); i++; }      /* replay: the clock origin of the recorded run */
        else if (!strcmp(k, "--a")) { A.a = atol(v); i++; }
        else if (!strcmp(k, "--b")) { A.b = atol(v); i++; }
        else if (!strcmp(k, "-v")) A.verbose = 1;
        else vf_harness_error("unknown argument %s", k);
    }
    if (A.deadline <= 0) A.deadline = vf_thorough() ? 1500 : 150;
    memset(&R, 0, sizeof R);
    R.property = property; R.out_path = A.out; R.cex_dir = A.cexdir;
}
